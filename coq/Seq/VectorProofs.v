(* frg::vector: closed forms of every operation under the representation invariant, and the refinement
   of operation sequences to lists (C13). *)
From Coq Require Import List NArith Arith Bool Lia.
From FV Require Import Common.EventLog Seq.SlotModel Seq.SlotProofs Seq.VectorModel.
Import ListNotations.

(* v represents the list l *)
Definition vinv (v : vec) (l : list V) : Prop :=
  v_size v = length l /\ length l <= v_cap v /\ v_cells v = slots l (v_cap v).

Lemma vinv_empty : vinv vec_empty [].
Proof. repeat split; cbn; lia. Qed.

Section WithElem.
Variable esz : N.
Variable veq : V -> V -> bool.

(* ---- _ensure_capacity *)
Definition grown (nb c : nat) (v : vec) (l : list V) : vec :=
  if Nat.leb c (v_cap v) then v else mk_vec nb (slots l (2 * c)) (length l) (2 * c).
Definition grown_nb (nb c : nat) (v : vec) : nat := if Nat.leb c (v_cap v) then nb else S nb.
(* al = the allocator instance of the vector, nb = the name of the new block *)
Definition grow_evs (al nb c : nat) (v : vec) (l : list V) : list ev :=
  if Nat.leb c (v_cap v) then [] else
  EAlloc nb (esz * N.of_nat (2 * c)) :: xfer_evs (heap_nm (v_blk v)) (heap_nm nb) 0 (length l)
    ++ destroy_evs (heap_nm (v_blk v)) 0 (length l) ++ free_ev al (v_blk v).

Lemma ensure_capacity_eq al nb c v l : vinv v l ->
  ensure_capacity esz al nb c v = Ok (grown (enc al nb) c v l, grown_nb nb c v, grow_evs al (enc al nb) c v l).
Proof.
  intros (Hs & Hc & Hcells). unfold ensure_capacity, grown, grown_nb, grow_evs.
  destruct (Nat.leb c (v_cap v)) eqn:E; [reflexivity|]. apply Nat.leb_gt in E.
  rewrite Hs, Hcells. unfold slots at 1.
  rewrite xfer_loop_slots by lia. cbn [bind].
  pose proof (destroy_loop_gen l (heap_nm (v_blk v)) [] (repeat None (v_cap v - length l))) as D.
  cbn [app length] in D. unfold slots. rewrite D. cbn [bind]. reflexivity.
Qed.

Lemma grown_inv nb c v l : vinv v l -> vinv (grown nb c v l) l /\ c <= v_cap (grown nb c v l).
Proof.
  intros (Hs & Hc & Hcells). unfold grown. destruct (Nat.leb c (v_cap v)) eqn:E.
  - apply Nat.leb_le in E. repeat split; auto.
  - apply Nat.leb_gt in E. repeat split; cbn; lia.
Qed.

(* ---- push / emplace_back *)
Definition pushed (nb : nat) (x : V) (v : vec) (l : list V) : vec :=
  let g := grown nb (length l + 1) v l in
  mk_vec (v_blk g) (slots (l ++ [x]) (v_cap g)) (S (length l)) (v_cap g).

Lemma push_eq al nb x v l : vinv v l ->
  push esz al nb x v = Ok (pushed (enc al nb) x v l, grown_nb nb (length l + 1) v,
                        grow_evs al (enc al nb) (length l + 1) v l ++ [EConstruct (v_blk (grown (enc al nb) (length l + 1) v l), length l)]).
Proof.
  intros H. unfold push, pushed. destruct H as (Hs & Hc & Hcells) eqn:HH. clear HH.
  rewrite Hs. rewrite (ensure_capacity_eq al nb (length l + 1) v l) by (repeat split; assumption). cbn [bind].
  destruct (grown_inv (enc al nb) (length l + 1) v l) as ((Gs & Gc & Gcells) & Gcap); [repeat split; assumption|].
  set (g := grown (enc al nb) (length l + 1) v l) in *.
  rewrite Gcells, Gs. rewrite slots_split by lia.
  rewrite construct_mid'. cbn [bind]. rewrite slots_snoc by lia. reflexivity.
Qed.

Lemma pushed_inv nb x v l : vinv v l -> vinv (pushed nb x v l) (l ++ [x]).
Proof.
  intros H. destruct (grown_inv nb (length l + 1) v l H) as (_ & Gcap).
  unfold pushed. repeat split; cbn; rewrite ?app_length; cbn [length]; lia.
Qed.

(* ---- pop *)
Lemma pop_eq v l x : vinv v (l ++ [x]) ->
  pop v = Ok (mk_vec (v_blk v) (slots l (v_cap v)) (length l) (v_cap v), x,
              [EUse (v_blk v, length l); EDestroy (v_blk v, length l)]).
Proof.
  intros (Hs & Hc & Hcells). rewrite app_length in Hs, Hc. cbn [length] in Hs, Hc.
  unfold pop. replace (v_size v) with (S (length l)) by lia.
  rewrite Hcells. rewrite <- slots_snoc by lia.
  rewrite rd_mid'. cbn [bind]. rewrite destroy_mid'. cbn [bind].
  rewrite <- slots_split by lia. reflexivity.
Qed.
Lemma pop_empty_ub v : vinv v [] -> pop v = UB.
Proof. intros (Hs & _). unfold pop. now rewrite Hs. Qed.

Lemma popped_inv v l x : vinv v (l ++ [x]) -> vinv (mk_vec (v_blk v) (slots l (v_cap v)) (length l) (v_cap v)) l.
Proof. intros (Hs & Hc & _). rewrite app_length in Hc. repeat split; cbn; lia. Qed.

(* ---- resize *)
Definition resized_list (n : nat) (x : V) (l : list V) : list V :=
  if Nat.ltb n (length l) then firstn n l else l ++ repeat x (n - length l).
Definition resize_evs (nb n : nat) (v : vec) (l : list V) : list ev :=
  let g := grown nb n v l in
  if Nat.ltb n (length l) then destroy_evs (heap_nm (v_blk g)) n (length l - n)
  else fill_evs (heap_nm (v_blk g)) (length l) (n - length l).
Definition resized (nb n : nat) (x : V) (v : vec) (l : list V) : vec :=
  let g := grown nb n v l in mk_vec (v_blk g) (slots (resized_list n x l) (v_cap g)) n (v_cap g).

Lemma resize_eq al nb n x v l : vinv v l ->
  resize esz al nb n x v = Ok (resized (enc al nb) n x v l, grown_nb nb n v, grow_evs al (enc al nb) n v l ++ resize_evs (enc al nb) n v l).
Proof.
  intros H. unfold resize, resized, resize_evs, resized_list.
  rewrite (ensure_capacity_eq al nb n v l H). cbn [bind].
  destruct (grown_inv (enc al nb) n v l H) as ((Gs & Gc & Gcells) & Gcap).
  set (g := grown (enc al nb) n v l) in *. rewrite Gs, Gcells.
  destruct (Nat.ltb n (length l)) eqn:E.
  - apply Nat.ltb_lt in E.
    assert (Hsplit : slots l (v_cap g) = map Some (firstn n l) ++ map Some (skipn n l) ++ repeat None (v_cap g - length l)).
    { unfold slots. rewrite app_assoc, <- map_app, firstn_skipn. reflexivity. }
    rewrite Hsplit.
    rewrite (destroy_loop_at (skipn n l) (heap_nm (v_blk g)) (map Some (firstn n l)) (repeat None (v_cap g - length l)) n (length l - n))
      by (rewrite ?map_length, ?firstn_length, ?skipn_length; lia).
    cbn [bind].
    f_equal. f_equal. f_equal. f_equal.
    unfold slots. rewrite firstn_length, Nat.min_l by lia. rewrite <- repeat_app. do 2 f_equal. lia.
  - apply Nat.ltb_ge in E.
    assert (Hsplit : slots l (v_cap g) = map Some l ++ repeat None (n - length l) ++ repeat None (v_cap g - n)).
    { unfold slots. rewrite <- repeat_app. do 2 f_equal. lia. }
    rewrite Hsplit.
    rewrite (fill_loop_at (n - length l) (heap_nm (v_blk g)) (map Some l) (repeat None (v_cap g - n)) x (length l))
      by (now rewrite map_length).
    cbn [bind].
    f_equal. f_equal. f_equal. f_equal.
    unfold slots. rewrite map_app, app_length, repeat_length, <- app_assoc.
    f_equal. f_equal; [| f_equal; lia].
    clear. induction (n - length l) as [|k IH]; [reflexivity|]. cbn [repeat map]. now rewrite IH.
Qed.

Lemma resized_list_length n x l : length (resized_list n x l) = n.
Proof.
  unfold resized_list. destruct (Nat.ltb n (length l)) eqn:E.
  - apply Nat.ltb_lt in E. rewrite firstn_length. lia.
  - apply Nat.ltb_ge in E. rewrite app_length, repeat_length. lia.
Qed.
Lemma resized_inv nb n x v l : vinv v l -> vinv (resized nb n x v l) (resized_list n x l).
Proof.
  intros H. destruct (grown_inv nb n v l H) as (_ & Gcap).
  unfold resized. repeat split; cbn; rewrite ?resized_list_length; lia.
Qed.

(* ---- clear, destructor *)
Lemma clear_eq v l : vinv v l ->
  clear v = Ok (mk_vec (v_blk v) (slots [] (v_cap v)) 0 (v_cap v), destroy_evs (heap_nm (v_blk v)) 0 (length l)).
Proof.
  intros (Hs & Hc & Hcells). unfold clear. rewrite Hs, Hcells.
  pose proof (destroy_loop_gen l (heap_nm (v_blk v)) [] (repeat None (v_cap v - length l))) as D.
  cbn [app length] in D. unfold slots at 1. rewrite D. cbn [bind].
  rewrite slots_nil, <- repeat_app. do 4 f_equal. lia.
Qed.
Lemma cleared_inv v : vinv (mk_vec (v_blk v) (slots [] (v_cap v)) 0 (v_cap v)) [].
Proof. repeat split; cbn; lia. Qed.

Lemma destruct_eq al v l : vinv v l ->
  destruct al v = Ok (destroy_evs (heap_nm (v_blk v)) 0 (length l) ++ free_ev al (v_blk v)).
Proof.
  intros (Hs & Hc & Hcells). unfold destruct. rewrite Hs, Hcells.
  pose proof (destroy_loop_gen l (heap_nm (v_blk v)) [] (repeat None (v_cap v - length l))) as D.
  cbn [app length] in D. unfold slots. rewrite D. reflexivity.
Qed.

(* ---- copy construction *)
Definition copied (nb : nat) (l : list V) : vec :=
  if Nat.leb (length l) 0 then vec_empty else mk_vec nb (slots l (2 * length l)) (length l) (2 * length l).
Definition copied_nb (nb : nat) (l : list V) : nat := if Nat.leb (length l) 0 then nb else S nb.
Definition copy_evs (nb : nat) (o : vec) (l : list V) : list ev :=
  (if Nat.leb (length l) 0 then [] else [EAlloc nb (esz * N.of_nat (2 * length l))])
  ++ xfer_evs (heap_nm (v_blk o)) (heap_nm (if Nat.leb (length l) 0 then 0 else nb)) 0 (length l).

Lemma copy_ctor_eq al nb o l : vinv o l ->
  copy_ctor esz al nb o = Ok (copied (enc al nb) l, copied_nb nb l, copy_evs (enc al nb) o l).
Proof.
  intros (Hs & Hc & Hcells). unfold copy_ctor, copied, copied_nb, copy_evs.
  rewrite Hs. rewrite (ensure_capacity_eq al nb (length l) vec_empty [] vinv_empty). cbn [bind].
  unfold grown, grown_nb, grow_evs. cbn [v_cap vec_empty].
  destruct (Nat.leb (length l) 0) eqn:E.
  - apply Nat.leb_le in E. assert (length l = 0) as L0 by lia. rewrite L0.
    cbn. reflexivity.
  - apply Nat.leb_gt in E. cbn [v_cells v_blk v_cap length]. rewrite Hcells. unfold slots at 1.
    rewrite slots_nil. rewrite xfer_loop_slots by lia. cbn [bind].
    unfold free_ev. cbn [xfer_evs destroy_evs seq flat_map map vec_empty v_blk Nat.eqb app]. reflexivity.
Qed.
Lemma copied_inv nb l : vinv (copied nb l) l.
Proof.
  unfold copied. destruct (Nat.leb (length l) 0) eqn:E.
  - apply Nat.leb_le in E. destruct l; [apply vinv_empty | cbn in E; lia].
  - repeat split; cbn; lia.
Qed.

(* ---- element access *)
Lemma front_eq v l : vinv v l -> front v = match l with [] => UB | x :: _ => Ok x end.
Proof.
  intros (_ & _ & Hcells). unfold front. rewrite Hcells. destruct l as [|x l].
  - apply rd_slots_ge. cbn; lia.
  - rewrite rd_slots_lt by (cbn; lia). reflexivity.
Qed.
Lemma back_eq v l x : vinv v (l ++ [x]) -> back v = Ok x.
Proof.
  intros (Hs & Hc & Hcells). rewrite app_length in Hs. cbn [length] in Hs.
  unfold back. replace (v_size v) with (S (length l)) by lia.
  rewrite Hcells, rd_slots_lt by (rewrite app_length; cbn; lia).
  now rewrite app_nth2, Nat.sub_diag by lia.
Qed.
Lemma back_empty_ub v : vinv v [] -> back v = UB.
Proof. intros (Hs & _). unfold back. now rewrite Hs. Qed.
Lemma index_eq v l i : vinv v l -> index v i = if Nat.ltb i (length l) then Ok (nth i l 0%N) else UB.
Proof.
  intros (_ & _ & Hcells). unfold index. rewrite Hcells. destruct (Nat.ltb i (length l)) eqn:E.
  - apply Nat.ltb_lt in E. now apply rd_slots_lt.
  - apply Nat.ltb_ge in E. now apply rd_slots_ge.
Qed.

Lemma equal_eq this other lt lo : vinv this lt -> vinv other lo ->
  exists e, equal veq this other = Ok (list_eqb veq lo lt, e) /\
            use_only (heap_nm (v_blk other)) (heap_nm (v_blk this)) 0 (length lt) e.
Proof.
  intros (Hs & Hc & Hcells) (Os & Oc & Ocells). unfold equal. rewrite Hs, Os.
  destruct (Nat.eqb (length lo) (length lt)) eqn:E; cbn [negb].
  - apply Nat.eqb_eq in E.
    rewrite Hcells, Ocells. unfold slots.
    generalize (repeat (@None V) (v_cap other - length lo)) as qa.
    generalize (repeat (@None V) (v_cap this - length lt)) as qb. intros qb qa.
    rewrite <- E.
    destruct (eq_loop_gen veq lo lt (heap_nm (v_blk other)) (heap_nm (v_blk this)) [] qa [] qb E eq_refl) as (e & He & Hu).
    cbn [app length Nat.add] in He, Hu.
    exists e; split; assumption.
  - apply Nat.eqb_neq in E. exists []. split; [|constructor].
    destruct (list_eqb veq lo lt) eqn:L; [apply list_eqb_length in L; lia | reflexivity].
Qed.

Lemma iterate_eq v l : vinv v l -> iterate v = map Some l.
Proof. intros (Hs & Hc & Hcells). unfold iterate. rewrite Hs, Hcells. now apply peek_all_slots. Qed.

(* ================================================================== refinement to lists (C13) *)
Definition rstate := nat -> list V.
Definition rs0 : rstate := fun _ => [].

(* preconditions the source does not check (documented; outside them the model yields UB) *)
Definition ref_pre (rs : rstate) (o : vop) : Prop :=
  match o with
  | VPop r | VFront r | VBack r => rs r <> []
  | VIndex r i => i < length (rs r)
  | _ => True
  end.

(* the reference: the same operation on lists *)
Definition ref_step (rs : rstate) (o : vop) : rstate * out :=
  match o with
  | VPush r x | VPushMove r x | VEmplace r x => (set_reg rs r (rs r ++ [x]), OUnit)
  | VPop r => (set_reg rs r (removelast (rs r)), OVal (last (rs r) 0%N))
  | VResize r n x => (set_reg rs r (resized_list n x (rs r)), OUnit)
  | VClear r => (set_reg rs r [], OUnit)
  | VFront r => (rs, OVal (hd 0%N (rs r)))
  | VBack r => (rs, OVal (last (rs r) 0%N))
  | VIndex r i => (rs, OVal (nth i (rs r) 0%N))
  | VEq r s => (rs, OBool (list_eqb veq (rs s) (rs r)))    (* other[i] == this[i], for every i *)
  | VAssign r s => (set_reg rs r (rs s), OUnit)
  | VMoveAssign r s => (set_reg (set_reg rs s []) r (rs s), OUnit)
  | VCopyCtor r s => (if Nat.eqb r s then rs else set_reg rs r (rs s), OUnit)
  | VMoveCtor r s => (if Nat.eqb r s then rs else set_reg (set_reg rs r (rs s)) s [], OUnit)
  | VSwap r s => (set_reg (set_reg rs r (rs s)) s (rs r), OUnit)
  end.

Fixpoint ref_run (rs : rstate) (ops : list vop) : rstate * list out :=
  match ops with
  | [] => (rs, [])
  | o :: r => let '(rs1, x) := ref_step rs o in let '(rs2, xs) := ref_run rs1 r in (rs2, x :: xs)
  end.
Fixpoint ref_ok (rs : rstate) (ops : list vop) : Prop :=
  match ops with
  | [] => True
  | o :: r => ref_pre rs o /\ ref_ok (fst (ref_step rs o)) r
  end.

Definition vrel (st : vst) (rs : rstate) : Prop := forall r, vinv (regs st r) (rs r).

Lemma vrel_set rg al al' nb nb' rs r v l : vrel (mk_vst rg al nb) rs -> vinv v l ->
  vrel (mk_vst (set_reg rg r v) al' nb') (set_reg rs r l).
Proof. intros H Hv k. cbn [regs]. unfold set_reg. destruct (Nat.eqb k r); [exact Hv | apply (H k)]. Qed.

Lemma vstep_refines st rs o : vrel st rs -> ref_pre rs o ->
  exists st' e, vstep esz veq st o = Ok (st', snd (ref_step rs o), e) /\ vrel st' (fst (ref_step rs o)).
Proof.
  intros R P. destruct st as [rg al nb]. pose proof R as R0. unfold vrel in R0. cbn [regs] in R0.
  destruct o as [r x|r x|r x|r|r n x|r|r|r|r i|r s|r s|r s|r s|r s|r s]; cbn [vstep regs als nextb ref_step fst snd ref_pre] in *.
  1-3: rewrite (push_eq (al r) nb x (rg r) (rs r) (R0 r)); cbn [bind]; do 2 eexists; split; [reflexivity|];
       eapply vrel_set; [exact R | apply pushed_inv, R0].
  - (* pop *)
    destruct (exists_last P) as (l & x & E). pose proof (R0 r) as Hr. rewrite E in Hr.
    rewrite (pop_eq (rg r) l x Hr). cbn [bind]. rewrite E, last_last, removelast_last.
    do 2 eexists; split; [reflexivity|]. eapply vrel_set; [exact R | eapply popped_inv; exact Hr].
  - (* resize *)
    rewrite (resize_eq (al r) nb n x (rg r) (rs r) (R0 r)). cbn [bind].
    do 2 eexists; split; [reflexivity|]. eapply vrel_set; [exact R | apply resized_inv, R0].
  - (* clear *)
    rewrite (clear_eq (rg r) (rs r) (R0 r)). cbn [bind].
    do 2 eexists; split; [reflexivity|]. eapply vrel_set; [exact R | apply cleared_inv].
  - (* front *)
    rewrite (front_eq (rg r) (rs r) (R0 r)). destruct (rs r) as [|x l] eqn:E; [congruence|]. cbn [bind hd].
    do 2 eexists; split; [reflexivity | exact R].
  - (* back *)
    destruct (exists_last P) as (l & x & E). pose proof (R0 r) as Hr. rewrite E in Hr.
    rewrite (back_eq (rg r) l x Hr). cbn [bind]. rewrite E, last_last.
    do 2 eexists; split; [reflexivity | exact R].
  - (* index *)
    rewrite (index_eq (rg r) (rs r) i (R0 r)). apply Nat.ltb_lt in P. rewrite P. cbn [bind].
    do 2 eexists; split; [reflexivity | exact R].
  - (* == *)
    destruct (equal_eq (rg r) (rg s) (rs r) (rs s) (R0 r) (R0 s)) as (e & He & _).
    rewrite He. cbn [bind].
    do 2 eexists; split; [reflexivity | exact R].
  - (* copy assignment *)
    rewrite (copy_ctor_eq (al s) nb (rg s) (rs s) (R0 s)). cbn [bind].
    rewrite (destruct_eq (al r) (rg r) (rs r) (R0 r)). cbn [bind].
    do 2 eexists; split; [reflexivity|]. eapply vrel_set; [exact R | apply copied_inv].
  - (* move assignment *)
    assert (R1 : vrel (mk_vst (set_reg rg s vec_empty) al nb) (set_reg rs s [])) by (eapply vrel_set; [exact R | apply vinv_empty]).
    pose proof (R1 r) as Hr. cbn [regs] in Hr.
    rewrite (destruct_eq (al r) _ _ Hr). cbn [bind].
    do 2 eexists; split; [reflexivity|]. eapply vrel_set; [exact R1 | apply R0].
  - (* copy construction *)
    destruct (Nat.eqb r s) eqn:E; [do 2 eexists; split; [reflexivity | exact R]|].
    rewrite (destruct_eq (al r) (rg r) (rs r) (R0 r)). cbn [bind].
    rewrite (copy_ctor_eq (al s) nb (rg s) (rs s) (R0 s)). cbn [bind].
    do 2 eexists; split; [reflexivity|]. eapply vrel_set; [exact R | apply copied_inv].
  - (* move construction *)
    destruct (Nat.eqb r s) eqn:E; [do 2 eexists; split; [reflexivity | exact R]|].
    rewrite (destruct_eq (al r) (rg r) (rs r) (R0 r)). cbn [bind].
    do 2 eexists; split; [reflexivity|].
    eapply vrel_set with (al := al) (nb := nb); [eapply vrel_set with (al := al) (al' := al) (nb := nb) (nb' := nb); [exact R | apply R0] | apply vinv_empty].
  - (* swap *)
    do 2 eexists; split; [reflexivity|].
    eapply vrel_set with (al := al) (nb := nb); [eapply vrel_set with (al := al) (al' := al) (nb := nb) (nb' := nb); [exact R | apply R0] | apply R0].
Qed.

(* outside the preconditions the model reports UB: nothing is made true by totalisation *)
Lemma vstep_pre_exact st rs o : vrel st rs -> ~ ref_pre rs o -> vstep esz veq st o = UB.
Proof.
  intros R P. destruct st as [rg al nb]. pose proof R as R0. unfold vrel in R0. cbn [regs] in R0.
  destruct o as [r x|r x|r x|r|r n x|r|r|r|r i|r s|r s|r s|r s|r s|r s]; cbn [ref_pre] in P; try (exfalso; apply P; exact I);
    cbn [vstep regs als nextb].
  - assert (rs r = []) as E by (destruct (rs r); [reflexivity | exfalso; apply P; congruence]).
    pose proof (R0 r) as Hr. rewrite E in Hr. now rewrite (pop_empty_ub _ Hr).
  - assert (rs r = []) as E by (destruct (rs r); [reflexivity | exfalso; apply P; congruence]).
    rewrite (front_eq (rg r) (rs r) (R0 r)), E. reflexivity.
  - assert (rs r = []) as E by (destruct (rs r); [reflexivity | exfalso; apply P; congruence]).
    pose proof (R0 r) as Hr. rewrite E in Hr. now rewrite (back_empty_ub _ Hr).
  - rewrite (index_eq (rg r) (rs r) i (R0 r)). destruct (Nat.ltb i (length (rs r))) eqn:E; [apply Nat.ltb_lt in E; contradiction | reflexivity].
Qed.

Lemma vrun_refines : forall ops st rs, vrel st rs -> ref_ok rs ops ->
  exists st' e, vrun esz veq st ops = Ok (st', snd (ref_run rs ops), e) /\ vrel st' (fst (ref_run rs ops)).
Proof.
  induction ops as [|o ops IH]; intros st rs R K.
  - do 2 eexists; split; [reflexivity | exact R].
  - destruct K as [P K]. destruct (vstep_refines st rs o R P) as (st1 & e1 & H1 & R1).
    cbn [vrun ref_run]. rewrite H1. cbn [bind].
    destruct (ref_step rs o) as [rs1 x] eqn:Es. cbn [fst snd] in *.
    destruct (IH st1 rs1 R1 K) as (st2 & e2 & H2 & R2). rewrite H2. cbn [bind].
    destruct (ref_run rs1 ops) as [rs2 xs]. cbn [fst snd] in *.
    do 2 eexists; split; [reflexivity | exact R2].
Qed.

Lemma vrel0 : vrel vst0 rs0.
Proof. intros r. apply vinv_empty. Qed.

(* what the observers return on a state that represents l *)
Lemma observers v l : vinv v l ->
  size v = length l /\ (empty v = true <-> l = []) /\ iterate v = map Some l /\
  (forall i, i < length l -> index v i = Ok (nth i l 0%N)) /\
  (l <> [] -> front v = Ok (hd 0%N l) /\ back v = Ok (last l 0%N)) /\
  length (v_cells v) = v_cap v.
Proof.
  intros H. pose proof H as (Hs & Hc & Hcells). unfold empty, size. rewrite Hs.
  split; [reflexivity|]. split; [rewrite Nat.eqb_eq; split; [intros E; now apply length_zero_iff_nil | intros ->; reflexivity]|].
  split; [now apply iterate_eq|].
  split; [intros i Hi; rewrite (index_eq v l i H); apply Nat.ltb_lt in Hi; now rewrite Hi|].
  split.
  - intros Hne. split.
    + rewrite (front_eq v l H). destruct l; [congruence | reflexivity].
    + destruct (exists_last Hne) as (l' & x & E). subst l. rewrite (back_eq v l' x H), last_last. reflexivity.
  - rewrite Hcells. now apply slots_length.
Qed.

End WithElem.
