(* Executable slot-level model of frg::vector (include/frg/vector.hpp) as it is in /repo.
   A script works on registers (container variables) 0..2, each constructed on its own allocator instance;
   every operation yields its result and the lifetime/allocation events it performs.
   Definitions only (proofs: VectorProofs.v). *)
From Coq Require Import List NArith Arith Bool.
From FV Require Import Common.EventLog Seq.SlotModel.
Import ListNotations.

(* _elements (block name, 0 = nullptr) with the block's slots, _size, _capacity *)
Record vec := mk_vec { v_blk : nat; v_cells : buf; v_size : nat; v_cap : nat }.

(* vector(Allocator) *)
Definition vec_empty : vec := mk_vec 0 [] 0 0.

(* regs r = the vector object, als r = the allocator instance its _allocator member designates *)
Record vst := mk_vst { regs : nat -> vec; als : nat -> nat; nextb : nat }.
Definition vst0 : vst := mk_vst (fun _ => vec_empty) (fun r => Nat.min r (NINST - 1)) 1.

Definition set_reg {A} (f : nat -> A) (r : nat) (x : A) : nat -> A :=
  fun k => if Nat.eqb k r then x else f k.

Section WithElem.
Variable esz : N.                  (* sizeof(T) *)
Variable veq : V -> V -> bool.     (* T's operator== *)

(* _ensure_capacity(c), vector.hpp:207-223.  al = the allocator instance of this vector, nb = number of the next
   allocation of the script. *)
Definition ensure_capacity (al nb c : nat) (v : vec) : res (vec * nat * list ev) :=
  if Nat.leb c (v_cap v) then Ok (v, nb, []) else
  let ncap := 2 * c in
  let nblk := enc al nb in
  (* vector.hpp:214  for(size_t i = 0; i < _size; i++) *)
  bind (xfer_loop (v_size v) 0 (heap_nm (v_blk v)) (heap_nm nblk) (v_cells v) (repeat None ncap)) (fun '(d, e1) =>
  bind (destroy_loop (v_size v) 0 (heap_nm (v_blk v)) (v_cells v)) (fun '(_, e2) =>
  Ok (mk_vec nblk d (v_size v) ncap, S nb,
      EAlloc nblk (esz * N.of_nat ncap) :: e1 ++ e2 ++ free_ev al (v_blk v)))).

(* push(const T&) / push(T&&) / emplace_back(args): identical but for the constructor called; the
   argument lives outside the container *)
Definition push (al nb : nat) (x : V) (v : vec) : res (vec * nat * list ev) :=
  bind (ensure_capacity al nb (v_size v + 1) v) (fun '(v1, nb1, e1) =>
  bind (construct (v_cells v1) (v_size v1) x) (fun c =>
  Ok (mk_vec (v_blk v1) c (S (v_size v1)) (v_cap v1), nb1,
      e1 ++ [EConstruct (v_blk v1, v_size v1)]))).

(* pop(): _size--; T element = std::move(_elements[_size]); _elements[_size].~T(); *)
Definition pop (v : vec) : res (vec * V * list ev) :=
  match v_size v with
  | O => UB                                   (* size_t wraps, the index is outside every buffer *)
  | S n =>
    bind (rd (v_cells v) n) (fun x =>
    bind (destroy (v_cells v) n) (fun c =>
    Ok (mk_vec (v_blk v) c n (v_cap v), x, [EUse (v_blk v, n); EDestroy (v_blk v, n)])))
  end.

(* resize(new_size, args...) *)
Definition resize (al nb n : nat) (x : V) (v : vec) : res (vec * nat * list ev) :=
  bind (ensure_capacity al nb n v) (fun '(v1, nb1, e1) =>
  bind (if Nat.ltb n (v_size v1)
        then destroy_loop (v_size v1 - n) n (heap_nm (v_blk v1)) (v_cells v1)
        else fill_loop (n - v_size v1) (v_size v1) (heap_nm (v_blk v1)) (v_cells v1) x) (fun '(c, e2) =>
  Ok (mk_vec (v_blk v1) c n (v_cap v1), nb1, e1 ++ e2))).

(* clear() *)
Definition clear (v : vec) : res (vec * list ev) :=
  bind (destroy_loop (v_size v) 0 (heap_nm (v_blk v)) (v_cells v)) (fun '(c, e) =>
  Ok (mk_vec (v_blk v) c 0 (v_cap v), e)).

(* ~vector(): _allocator.free(_elements) through this vector's allocator instance *)
Definition destruct (al : nat) (v : vec) : res (list ev) :=
  bind (destroy_loop (v_size v) 0 (heap_nm (v_blk v)) (v_cells v)) (fun '(_, e) =>
  Ok (e ++ free_ev al (v_blk v))).

(* vector(const vector &other) : vector(other._allocator); al = other's allocator instance *)
Definition copy_ctor (al nb : nat) (o : vec) : res (vec * nat * list ev) :=
  bind (ensure_capacity al nb (v_size o) vec_empty) (fun '(v1, nb1, e1) =>
  bind (xfer_loop (v_size o) 0 (heap_nm (v_blk o)) (heap_nm (v_blk v1)) (v_cells o) (v_cells v1)) (fun '(c, e2) =>
  Ok (mk_vec (v_blk v1) c (v_size o) (v_cap v1), nb1, e1 ++ e2))).

(* front(), back(), operator[] : the element the returned reference designates *)
Definition front (v : vec) : res V := rd (v_cells v) 0.
Definition back (v : vec) : res V :=
  match v_size v with O => UB | S n => rd (v_cells v) n end.
Definition index (v : vec) (i : nat) : res V := rd (v_cells v) i.

(* this->operator==(other): sizes, then other[i] != _elements[i], i.e. !(other[i] == _elements[i]) *)
Definition equal (this other : vec) : res (bool * list ev) :=
  if negb (Nat.eqb (v_size other) (v_size this)) then Ok (false, []) else
  eq_loop veq (v_size this) 0 (heap_nm (v_blk other)) (heap_nm (v_blk this)) (v_cells other) (v_cells this).

(* size(), empty(), begin()..end() *)
Definition size (v : vec) : nat := v_size v.
Definition empty (v : vec) : bool := Nat.eqb (size v) 0.
Definition iterate (v : vec) : list (option V) := peek_all (v_cells v) (v_size v).

Inductive vop :=
| VPush (r : nat) (x : V) | VPushMove (r : nat) (x : V) | VEmplace (r : nat) (x : V)
| VPop (r : nat)
| VResize (r n : nat) (x : V)
| VClear (r : nat)
| VFront (r : nat) | VBack (r : nat) | VIndex (r i : nat)
| VEq (r s : nat)
| VAssign (r s : nat)        (* r = s            : operator=(vector other), copy-and-swap *)
| VMoveAssign (r s : nat)    (* r = std::move(s) *)
| VCopyCtor (r s : nat)      (* r.~vector(); new (&r) vector(s)             (r <> s) *)
| VMoveCtor (r s : nat)      (* r.~vector(); new (&r) vector(std::move(s))  (r <> s) *)
| VSwap (r s : nat).

(* The allocator travels with the buffer: swap() exchanges _allocator, copy and move construction start from
   vector(other._allocator). *)
Definition vstep (st : vst) (o : vop) : res (vst * out * list ev) :=
  let rg := regs st in
  let al := als st in
  match o with
  | VPush r x | VPushMove r x | VEmplace r x =>
    bind (push (al r) (nextb st) x (rg r)) (fun '(v, nb, e) => Ok (mk_vst (set_reg rg r v) al nb, OUnit, e))
  | VPop r =>
    bind (pop (rg r)) (fun '(v, x, e) => Ok (mk_vst (set_reg rg r v) al (nextb st), OVal x, e))
  | VResize r n x =>
    bind (resize (al r) (nextb st) n x (rg r)) (fun '(v, nb, e) => Ok (mk_vst (set_reg rg r v) al nb, OUnit, e))
  | VClear r =>
    bind (clear (rg r)) (fun '(v, e) => Ok (mk_vst (set_reg rg r v) al (nextb st), OUnit, e))
  | VFront r => bind (front (rg r)) (fun x => Ok (st, OVal x, []))
  | VBack r => bind (back (rg r)) (fun x => Ok (st, OVal x, []))
  | VIndex r i => bind (index (rg r) i) (fun x => Ok (st, OVal x, []))
  | VEq r s => bind (equal (rg r) (rg s)) (fun '(b, e) => Ok (st, OBool b, e))
  | VAssign r s =>
    (* the by-value parameter is copy-constructed from s (on s's allocator), swapped with *this, and destroyed
       holding what *this held, its allocator included *)
    bind (copy_ctor (al s) (nextb st) (rg s)) (fun '(other, nb, e1) =>
    bind (destruct (al r) (rg r)) (fun e2 =>
    Ok (mk_vst (set_reg rg r other) (set_reg al r (al s)) nb, OUnit, e1 ++ e2)))
  | VMoveAssign r s =>
    (* parameter = vector(std::move(s)): empty vector on s's allocator swapped with s; then swap with *this *)
    let other := rg s in
    let rg1 := set_reg rg s vec_empty in
    let mine := rg1 r in
    bind (destruct (al r) mine) (fun e =>
    Ok (mk_vst (set_reg rg1 r other) (set_reg al r (al s)) (nextb st), OUnit, e))
  | VCopyCtor r s =>
    if Nat.eqb r s then Ok (st, OUnit, []) else
    bind (destruct (al r) (rg r)) (fun e1 =>
    bind (copy_ctor (al s) (nextb st) (rg s)) (fun '(v, nb, e2) =>
    Ok (mk_vst (set_reg rg r v) (set_reg al r (al s)) nb, OUnit, e1 ++ e2)))
  | VMoveCtor r s =>
    if Nat.eqb r s then Ok (st, OUnit, []) else
    bind (destruct (al r) (rg r)) (fun e1 =>
    Ok (mk_vst (set_reg (set_reg rg r (rg s)) s vec_empty) (set_reg al r (al s)) (nextb st), OUnit, e1))
  | VSwap r s =>
    Ok (mk_vst (set_reg (set_reg rg r (rg s)) s (rg r)) (set_reg (set_reg al r (al s)) s (al r)) (nextb st), OUnit, [])
  end.

(* run a script; stops at the first AssertStop/UB *)
Fixpoint vrun (st : vst) (ops : list vop) : res (vst * list out * list ev) :=
  match ops with
  | [] => Ok (st, [], [])
  | o :: r =>
    bind (vstep st o) (fun '(st1, x, e1) =>
    bind (vrun st1 r) (fun '(st2, xs, e2) => Ok (st2, x :: xs, e1 ++ e2)))
  end.

(* the owners' destructors at the end of a script: registers 0, 1, 2 *)
Definition nregs : nat := 3.
Fixpoint destruct_regs (rg : nat -> vec) (al : nat -> nat) (k n : nat) : res (list ev) :=
  match n with
  | O => Ok []
  | S m => bind (destruct (al k) (rg k)) (fun e1 => bind (destruct_regs rg al (S k) m) (fun e2 => Ok (e1 ++ e2)))
  end.
Definition vfinish (st : vst) : res (list ev) := destruct_regs (regs st) (als st) 0 nregs.

End WithElem.
