(* frg::intrusive_list: the pointer-level model refines lists (C13). *)
From Coq Require Import List NArith Arith Bool Lia.
From FV Require Import Seq.SlotModel Seq.IListModel.
Import ListNotations.

(* the hooks of the objects in l form a doubly linked segment: p precedes its head, q follows its last *)
Fixpoint seg (hs : nat -> hook) (p : nat) (l : list nat) (q : nat) : Prop :=
  match l with
  | [] => True
  | x :: r => x <> 0 /\ h_prev (hs x) = p /\ h_in (hs x) = true /\ h_next (hs x) = hd q r /\ seg hs x r q
  end.

(* the list object L over the heap hs represents l *)
Definition repr (hs : nat -> hook) (L : ilist) (l : list nat) : Prop :=
  l_front L = hd 0 l /\ l_back L = last l 0 /\ seg hs 0 l 0 /\ NoDup l.

Lemma seg_frame hs hs' p l q : (forall x, In x l -> hs' x = hs x) -> seg hs p l q -> seg hs' p l q.
Proof.
  revert p. induction l as [|x r IH]; intros p F S; [exact I|].
  cbn [seg] in *. destruct S as (Hx & Hp & Hi & Hn & Hr).
  rewrite (F x (or_introl eq_refl)). repeat split; auto.
  apply IH; auto. intros y Hy. apply F. now right.
Qed.

Lemma seg_setf_notin hs k v p l q : ~ In k l -> seg hs p l q -> seg (setf hs k v) p l q.
Proof.
  intros N. apply seg_frame. intros x Hx. unfold setf.
  destruct (Nat.eqb_spec x k); [subst; contradiction | reflexivity].
Qed.

Lemma last_cons {A} (x : A) r d : last (x :: r) d = last r x.
Proof.
  revert x d. induction r as [|y r IH]; intros x d; [reflexivity|].
  change (last (x :: y :: r) d) with (last (y :: r) d). now rewrite !IH.
Qed.

Lemma seg_app hs p l1 l2 q :
  seg hs p (l1 ++ l2) q <-> seg hs p l1 (hd q l2) /\ seg hs (last l1 p) l2 q.
Proof.
  revert p. induction l1 as [|x r IH]; intros p.
  - cbn [app seg last]. tauto.
  - cbn [app seg]. rewrite IH.
    assert (E1 : hd q (r ++ l2) = hd (hd q l2) r) by (destruct r; reflexivity).
    assert (E2 : last (x :: r) p = last r x) by apply last_cons.
    rewrite E1, E2. tauto.
Qed.

Lemma seg_nonzero hs p l q x : seg hs p l q -> In x l -> x <> 0.
Proof.
  revert p. induction l as [|y r IH]; intros p S Hx; [destruct Hx|].
  destruct S as (Hy & _ & _ & _ & Hr). destruct Hx as [->|Hx]; [exact Hy | eapply IH; eauto].
Qed.
Lemma seg_in hs p l q x : seg hs p l q -> In x l -> h_in (hs x) = true.
Proof.
  revert p. induction l as [|y r IH]; intros p S Hx; [destruct Hx|].
  destruct S as (_ & _ & Hi & _ & Hr). destruct Hx as [->|Hx]; [exact Hi | eapply IH; eauto].
Qed.

(* change of the predecessor link of the head / the successor link of the last element *)
Lemma seg_set_head_prev hs p p' y r q :
  seg hs p (y :: r) q -> ~ In y r ->
  seg (setf hs y (mk_hook (h_next (hs y)) p' (h_in (hs y)))) p' (y :: r) q.
Proof.
  intros (Hy & Hp & Hi & Hn & Hr) N. cbn [seg]. unfold setf at 1 2 3. rewrite Nat.eqb_refl. cbn.
  repeat split; auto. now apply seg_setf_notin.
Qed.
Lemma seg_set_last_next hs p l y q q' :
  seg hs p (l ++ [y]) q -> ~ In y l ->
  seg (setf hs y (mk_hook q' (h_prev (hs y)) (h_in (hs y)))) p (l ++ [y]) q'.
Proof.
  intros S N. apply seg_app in S. destruct S as (S1 & S2). apply seg_app. split.
  - cbn [hd] in *. now apply seg_setf_notin.
  - cbn [seg] in *. destruct S2 as (Hy & Hp & Hi & Hn & _). unfold setf. rewrite Nat.eqb_refl. cbn.
    repeat split; auto.
Qed.

Lemma last_app_cons {A} (l : list A) x r d : last (l ++ x :: r) d = last (x :: r) d.
Proof. induction l as [|a l IH]; [reflexivity|]. cbn [app]. rewrite <- IH. destruct (l ++ x :: r) eqn:E; [destruct l; discriminate | reflexivity]. Qed.
Lemma last_cons_default {A} (x : A) r d d' : last (x :: r) d = last (x :: r) d'.
Proof. revert x. induction r as [|y r IH]; intros x; [reflexivity|]. change (last (y :: r) d = last (y :: r) d'). apply IH. Qed.

(* ---- iteration *)
Lemma walk_seg hs : forall l p fuel, seg hs p l 0 -> length l <= fuel -> walk fuel hs (hd 0 l) = Ok l.
Proof.
  induction l as [|x r IH]; intros p fuel S F.
  - destruct fuel; reflexivity.
  - destruct S as (Hx & _ & _ & Hn & Hr). cbn [hd length] in *.
    destruct fuel as [|f]; [lia|]. cbn [walk]. unfold isnull.
    destruct (Nat.eqb_spec x 0); [contradiction|]. rewrite Hn.
    rewrite (IH x f Hr) by lia. reflexivity.
Qed.

Lemma last_default {A} (l : list A) d d' : l <> [] -> last l d = last l d'.
Proof. destruct l as [|x r]; [congruence|]. intros _. apply last_cons_default. Qed.

Lemma walk_back_seg hs : forall l p q fuel, seg hs p l q -> l <> [] -> length l <= fuel ->
  walk_back fuel hs (last l 0) = bind (walk_back (fuel - length l) hs p) (fun r => Ok (rev l ++ r)).
Proof.
  induction l as [|y l IH] using rev_ind; intros p q fuel S NE F; [congruence|].
  apply seg_app in S. destruct S as (S1 & S2). cbn [seg hd] in S2. destruct S2 as (Hy & Hp & _ & _ & _).
  rewrite last_last. rewrite app_length in F |- *. cbn [length] in F |- *.
  destruct fuel as [|f]; [lia|]. cbn [walk_back]. unfold isnull. destruct (Nat.eqb_spec y 0); [contradiction|].
  rewrite Hp. rewrite rev_app_distr. cbn [rev app].
  replace (S f - (length l + 1)) with (f - length l) by lia.
  destruct l as [|z l'].
  - cbn [last length]. rewrite Nat.sub_0_r. destruct (walk_back f hs p); reflexivity.
  - rewrite (last_default (z :: l') p 0) by congruence.
    rewrite (IH p y f S1) by (cbn [length] in *; try congruence; lia).
    destruct (walk_back (f - length (z :: l')) hs p); cbn [bind]; try reflexivity.
Qed.

Lemma walk_back_repr hs l fuel : seg hs 0 l 0 -> length l <= fuel -> walk_back fuel hs (last l 0) = Ok (rev l).
Proof.
  intros S F. destruct l as [|x r] eqn:E.
  - destruct fuel; reflexivity.
  - rewrite <- E in *. rewrite (walk_back_seg hs l 0 0 fuel S) by (subst; try congruence; lia).
    destruct (fuel - length l); cbn [walk_back isnull Nat.eqb bind]; now rewrite app_nil_r.
Qed.

(* ---- evaluation of the monadic code *)
Lemma isnull_false x : x <> 0 -> isnull x = false.
Proof. intros H. unfold isnull. now apply Nat.eqb_neq. Qed.
Lemma H_nz hs x : x <> 0 -> H hs x = Ok (hs x).
Proof. intros Hx. unfold H. now rewrite (proj2 (Nat.eqb_neq x 0) Hx). Qed.
Lemma set_next_nz hs p v : p <> 0 -> set_next hs p v = Ok (setf hs p (mk_hook v (h_prev (hs p)) (h_in (hs p)))).
Proof. intros Hx. unfold set_next. now rewrite (proj2 (Nat.eqb_neq p 0) Hx). Qed.
Lemma set_prev_nz hs p v : p <> 0 -> set_prev hs p v = Ok (setf hs p (mk_hook (h_next (hs p)) v (h_in (hs p)))).
Proof. intros Hx. unfold set_prev. now rewrite (proj2 (Nat.eqb_neq p 0) Hx). Qed.
Lemma set_in_nz hs p v : p <> 0 -> set_in hs p v = Ok (setf hs p (mk_hook (h_next (hs p)) (h_prev (hs p)) v)).
Proof. intros Hx. unfold set_in. now rewrite (proj2 (Nat.eqb_neq p 0) Hx). Qed.
Lemma setf_same {A} (f : nat -> A) k v : setf f k v k = v.
Proof. unfold setf. now rewrite Nat.eqb_refl. Qed.
Lemma setf_other {A} (f : nat -> A) k v j : j <> k -> setf f k v j = f j.
Proof. intros Hx. unfold setf. now rewrite (proj2 (Nat.eqb_neq j k) Hx). Qed.

Lemma push_front_ok hs L l x :
  repr hs L l -> x <> 0 -> hs x = hook0 -> ~ In x l ->
  exists hs' L', push_front hs L x = Ok (hs', L') /\ repr hs' L' (x :: l) /\
                 (forall y, y <> x -> ~ In y l -> hs' y = hs y).
Proof.
  intros (Hf & Hb & S & ND) Hx Hh Hn.
  unfold push_front. rewrite (isnull_false x Hx). cbn [negb assert bind].
  rewrite (H_nz hs x Hx). cbn [bind]. rewrite Hh. cbn [hook0 h_in h_next h_prev negb isnull Nat.eqb assert bind].
  destruct l as [|f r].
  - cbn [hd last] in Hf, Hb. rewrite Hf. cbn [isnull Nat.eqb bind l_back].
    rewrite (set_in_nz _ _ _ Hx). cbn [bind]. rewrite Hh. cbn [hook0 h_next h_prev].
    do 2 eexists. split; [reflexivity|]. split.
    + repeat split; cbn [l_front l_back hd last seg]; rewrite ?setf_same; cbn; auto.
      constructor; [intros []|constructor].
    + intros y Hy _. now apply setf_other.
  - cbn [hd] in Hf. destruct S as (Hfz & Hfp & Hfi & Hfn & Sr).
    rewrite Hf. rewrite (isnull_false f Hfz).
    rewrite (set_next_nz _ _ _ Hx). cbn [bind].
    rewrite (set_prev_nz _ _ _ Hfz). cbn [bind].
    rewrite (set_in_nz _ _ _ Hx). cbn [bind l_back].
    assert (Hxf : x <> f) by (intros ->; apply Hn; now left).
    assert (Hfx : f <> x) by congruence.
    do 2 eexists. split; [reflexivity|]. split.
    + inversion ND as [|? ? Nf NDr]; subst.
      repeat split; cbn [l_front l_back hd].
      * rewrite Hb. now rewrite !last_cons.
      * exact Hx.
      * rewrite setf_same. cbn. rewrite setf_other, setf_same by exact Hxf. cbn. now rewrite Hh.
      * rewrite setf_same. reflexivity.
      * rewrite setf_same. cbn. rewrite setf_other, setf_same by exact Hxf. reflexivity.
      * exact Hfz.
      * rewrite setf_other, setf_same by exact Hfx. reflexivity.
      * rewrite setf_other, setf_same by exact Hfx. cbn. rewrite setf_other by exact Hfx. exact Hfi.
      * rewrite setf_other, setf_same by exact Hfx. cbn. rewrite setf_other by exact Hfx. exact Hfn.
      * apply seg_setf_notin; [intros C; apply Hn; now right|].
        apply seg_setf_notin; [exact Nf|].
        apply seg_setf_notin; [intros C; apply Hn; now right|]. exact Sr.
      * constructor; [exact Hn | exact ND].
    + intros y Hy Hyl. rewrite setf_other by exact Hy.
      rewrite setf_other by (intros ->; apply Hyl; now left). now rewrite setf_other by exact Hy.
Qed.

Lemma NoDup_app_snoc {A} (l : list A) x : NoDup l -> ~ In x l -> NoDup (l ++ [x]).
Proof.
  induction l as [|a l IH]; intros ND N; cbn [app].
  - constructor; [intros []|constructor].
  - inversion ND; subst. constructor.
    + intros C. apply in_app_or in C. destruct C as [C|[C|[]]]; [contradiction | subst; apply N; now left].
    + apply IH; [assumption | intros C; apply N; now right].
Qed.
Lemma NoDup_app_comm_parts {A} (l1 l2 : list A) : NoDup (l1 ++ l2) -> NoDup l1 /\ NoDup l2 /\ (forall x, In x l1 -> ~ In x l2).
Proof.
  induction l1 as [|a l1 IH]; cbn [app]; intros ND.
  - split; [constructor|]. split; [assumption|]. intros x [].
  - inversion ND; subst. destruct (IH H2) as (N1 & N2 & D). split.
    + constructor; [intros C; apply H1, in_or_app; now left | assumption].
    + split; [assumption|]. intros x [->|Hx]; [intros C; apply H1, in_or_app; now right | now apply D].
Qed.

Lemma NoDup_app_comm_parts_inv {A} (l1 l2 : list A) :
  NoDup l1 -> NoDup l2 -> (forall x, In x l1 -> ~ In x l2) -> NoDup (l1 ++ l2).
Proof.
  induction l1 as [|a l1 IH]; cbn [app]; intros N1 N2 D; [assumption|].
  inversion N1; subst. constructor.
  - intros C. apply in_app_or in C. destruct C as [C|C]; [contradiction | apply (D a); [now left | assumption]].
  - apply IH; auto. intros x Hx. apply D. now right.
Qed.

Ltac sf := repeat (rewrite setf_same || (rewrite setf_other by (auto; congruence))); cbn [h_next h_prev h_in].

Lemma push_back_ok hs L l x :
  repr hs L l -> x <> 0 -> hs x = hook0 -> ~ In x l ->
  exists hs' L', push_back hs L x = Ok (hs', L') /\ repr hs' L' (l ++ [x]) /\
                 (forall y, y <> x -> ~ In y l -> hs' y = hs y).
Proof.
  intros (Hf & Hb & S & ND) Hx Hh Hn.
  unfold push_back. rewrite (isnull_false x Hx). cbn [negb assert bind].
  rewrite (H_nz hs x Hx). cbn [bind]. rewrite Hh. cbn [hook0 h_in h_next h_prev negb isnull Nat.eqb assert bind].
  destruct l as [|a l0] eqn:El.
  - cbn [hd last] in Hf, Hb. rewrite Hb. cbn [isnull Nat.eqb bind l_front].
    rewrite (set_in_nz _ _ _ Hx). cbn [bind]. rewrite Hh. cbn [hook0 h_next h_prev].
    do 2 eexists. split; [reflexivity|]. split.
    + repeat split; cbn [app l_front l_back hd last seg]; rewrite ?setf_same; cbn; auto.
      constructor; [intros []|constructor].
    + intros y Hy _. now apply setf_other.
  - rewrite <- El in *. assert (NE : l <> []) by (subst; congruence).
    destruct (exists_last NE) as (r & b & Er). rewrite Er in *. clear El NE.
    rewrite last_last in Hb.
    pose proof S as S0. apply seg_app in S. destruct S as (S1 & S2). cbn [seg hd] in S1, S2.
    destruct S2 as (Hbz & Hbp & Hbi & Hbn & _).
    rewrite Hb. rewrite (isnull_false b Hbz).
    rewrite (set_prev_nz _ _ _ Hx). cbn [bind].
    rewrite (set_next_nz _ _ _ Hbz). cbn [bind].
    rewrite (set_in_nz _ _ _ Hx). cbn [bind l_front].
    assert (Hxb : x <> b) by (intros ->; apply Hn, in_or_app; right; now left).
    assert (Hbx : b <> x) by congruence.
    assert (Nbr : ~ In b r) by (apply NoDup_remove_2 in ND; now rewrite app_nil_r in ND).
    do 2 eexists. split; [reflexivity|]. split.
    + split; [|split; [|split]]; cbn [l_front l_back].
      * rewrite Hf. destruct r; reflexivity.
      * now rewrite last_last.
      * apply seg_app. split.
        -- cbn [hd]. apply seg_setf_notin; [exact Hn|].
           apply seg_set_last_next with (q := 0); [|exact Nbr].
           apply seg_setf_notin; [exact Hn | exact S0].
        -- rewrite last_last. cbn [seg hd]. sf. rewrite Hh. cbn. repeat split; auto.
      * apply NoDup_app_snoc; assumption.
    + intros y Hy Hyl. rewrite setf_other by exact Hy.
      rewrite setf_other by (intros ->; apply Hyl, in_or_app; right; now left). now rewrite setf_other by exact Hy.
Qed.

Lemma hd_app_nonnil {A} (l1 l2 : list A) d : l1 <> [] -> hd d (l1 ++ l2) = hd d l1.
Proof. destruct l1; [congruence | reflexivity]. Qed.

Lemma last_app_cons2 {A} (l : list A) x y r d : last (l ++ x :: y :: r) d = last (l ++ y :: r) d.
Proof. now rewrite !last_app_cons. Qed.

Lemma seg_cons hs p x r q :
  seg hs p (x :: r) q <-> x <> 0 /\ h_prev (hs x) = p /\ h_in (hs x) = true /\ h_next (hs x) = hd q r /\ seg hs x r q.
Proof. reflexivity. Qed.

Lemma seg_set_head_prev' hs p p' y r q n i :
  seg hs p (y :: r) q -> ~ In y r -> n = h_next (hs y) -> i = h_in (hs y) ->
  seg (setf hs y (mk_hook n p' i)) p' (y :: r) q.
Proof. intros S N -> ->. eapply seg_set_head_prev; eauto. Qed.
Lemma seg_set_last_next' hs p l y q q' pr i :
  seg hs p (l ++ [y]) q -> ~ In y l -> pr = h_prev (hs y) -> i = h_in (hs y) ->
  seg (setf hs y (mk_hook q' pr i)) p (l ++ [y]) q'.
Proof. intros S N -> ->. eapply seg_set_last_next; eauto. Qed.

Lemma insert_ok hs L la bef l2 x :
  repr hs L (la ++ bef :: l2) -> x <> 0 -> hs x = hook0 -> ~ In x (la ++ bef :: l2) ->
  exists hs' L', insert hs L bef x = Ok (hs', L') /\ repr hs' L' (la ++ x :: bef :: l2) /\
                 (forall y, y <> x -> ~ In y (la ++ bef :: l2) -> hs' y = hs y).
Proof.
  intros R Hx Hh Hn. pose proof R as (Hf & Hb & S & ND).
  assert (Hbefz : bef <> 0) by (eapply seg_nonzero; [exact S | apply in_or_app; right; now left]).
  unfold insert. rewrite (isnull_false bef Hbefz).
  destruct la as [|a la0] eqn:Ela.
  - cbn [app hd] in *. rewrite Hf, Nat.eqb_refl. apply push_front_ok; assumption.
  - rewrite <- Ela in *. assert (NE : la <> []) by (subst; congruence).
    destruct (exists_last NE) as (l1 & pv & E1). rewrite E1 in *. clear Ela NE.
    destruct (NoDup_app_comm_parts _ _ ND) as (ND1 & ND2 & Dj).
    assert (Hfb : Nat.eqb bef (l_front L) = false).
    { apply Nat.eqb_neq. rewrite Hf. rewrite hd_app_nonnil by (destruct l1; discriminate).
      intros C. apply (Dj bef); [|now left].
      rewrite C. destruct l1; cbn; auto. }
    rewrite Hfb.
    rewrite (isnull_false x Hx). cbn [negb assert bind].
    rewrite (H_nz hs x Hx). cbn [bind]. rewrite Hh. cbn [hook0 h_in h_next h_prev negb isnull Nat.eqb assert bind].
    rewrite (H_nz hs bef Hbefz). cbn [bind].
    apply seg_app in S. destruct S as (S1 & S2). cbn [hd] in S1. rewrite last_last in S2.
    pose proof S2 as S2'. destruct S2' as (_ & Hbp & Hbi & Hbn & S3).
    pose proof S1 as S1'. apply seg_app in S1'. destruct S1' as (_ & S1b). cbn [seg hd] in S1b.
    destruct S1b as (Hpz & Hpp & Hpi & Hpn & _).
    rewrite Hbp. rewrite (H_nz hs pv Hpz). cbn [bind]. rewrite Hpn.
    rewrite (set_next_nz _ _ _ Hpz). cbn [bind].
    rewrite (set_prev_nz _ _ _ Hbefz). cbn [bind].
    rewrite (set_prev_nz _ _ _ Hx). cbn [bind].
    rewrite (set_next_nz _ _ _ Hx). cbn [bind].
    rewrite (set_in_nz _ _ _ Hx). cbn [bind].
    assert (Hx1 : ~ In x (l1 ++ [pv])) by (intros C; apply Hn, in_or_app; now left).
    assert (Hx2 : ~ In x (bef :: l2)) by (intros C; apply Hn, in_or_app; now right).
    assert (Hxp : x <> pv) by (intros ->; apply Hx1, in_or_app; right; now left).
    assert (Hxb : x <> bef) by (intros ->; apply Hx2; now left).
    assert (Hpb : pv <> bef) by (intros ->; apply (Dj bef); [apply in_or_app; right; now left | now left]).
    assert (Np : ~ In pv l1) by (apply NoDup_remove_2 in ND1; now rewrite app_nil_r in ND1).
    assert (Nb : ~ In bef l2) by (inversion ND2; assumption).
    do 2 eexists. split; [reflexivity|]. split.
    + split; [|split; [|split]].
      * rewrite Hf. rewrite (hd_app_nonnil (l1 ++ [pv]) (bef :: l2)), (hd_app_nonnil (l1 ++ [pv]) (x :: bef :: l2)) by (destruct l1; discriminate). reflexivity.
      * rewrite Hb. symmetry. apply last_app_cons2.
      * apply seg_app. split.
        -- cbn [hd].
           do 3 (apply seg_setf_notin; [exact Hx1|]).
           apply seg_setf_notin; [intros C; apply (Dj bef C); now left|].
           apply seg_set_last_next with (q := bef); [exact S1 | exact Np].
        -- rewrite last_last. apply seg_cons. split; [exact Hx|]. sf. rewrite Hh. cbn [hook0 h_in hd].
           split; [reflexivity|]. split; [reflexivity|]. split; [reflexivity|].
           do 3 (apply seg_setf_notin; [exact Hx2|]).
           apply seg_set_head_prev' with (p := pv); [|exact Nb|now sf|now sf].
           apply seg_setf_notin; [intros C; apply (Dj pv); [apply in_or_app; right; now left | exact C]|].
           exact S2.
      * apply NoDup_app_comm_parts_inv.
        -- exact ND1.
        -- constructor; [exact Hx2 | exact ND2].
        -- intros y Hy [->|C]; [contradiction | now apply (Dj y)].
    + intros y Hy Hyl.
      assert (y <> pv) by (intros ->; apply Hyl, in_or_app; left; apply in_or_app; right; now left).
      assert (y <> bef) by (intros ->; apply Hyl, in_or_app; right; now left).
      now sf.
Qed.

Lemma rev_case {A} (l : list A) : l = [] \/ exists l' x, l = l' ++ [x].
Proof.
  destruct l as [|a l0] eqn:E; [now left|]. right. rewrite <- E.
  assert (NE : l <> []) by (subst; discriminate).
  destruct (exists_last NE) as (l' & x & ->). eauto.
Qed.

Lemma isnull_0 : isnull 0 = true.
Proof. reflexivity. Qed.
Ltac ev := repeat (first [rewrite Nat.eqb_refl | progress cbn [assert bind l_front l_back]]).

Lemma erase_ok hs L l1 x l2 :
  repr hs L (l1 ++ x :: l2) ->
  exists hs' L', erase hs L x = Ok (hs', L', x) /\ repr hs' L' (l1 ++ l2) /\ hs' x = hook0 /\
    (forall y, ~ In y (l1 ++ x :: l2) -> hs' y = hs y).
Proof.
  intros (Hf & Hb & S & ND).
  apply seg_app in S. destruct S as (S1 & S2). cbn [hd] in S1.
  pose proof S2 as (Hx & Hxp & Hxi & Hxn & S3).
  destruct (NoDup_app_comm_parts _ _ ND) as (ND1 & ND2 & Dj).
  assert (Nx2 : ~ In x l2) by (inversion ND2; assumption).
  assert (ND2' : NoDup l2) by (inversion ND2; assumption).
  assert (Nx1 : ~ In x l1) by (intros C; apply (Dj x C); now left).
  unfold erase. rewrite (isnull_false x Hx). cbn [negb assert bind].
  rewrite (H_nz hs x Hx). cbn [bind]. rewrite Hxi. cbn [assert bind]. rewrite Hxn, Hxp.
  rewrite last_app_cons in Hb.
  destruct l2 as [|n l2']; destruct (rev_case l1) as [E1|(l1' & pv & E1)]; subst l1.
  - (* only element *)
    cbn [hd last app] in *. rewrite Hb, Hf. rewrite ?isnull_0. ev.
    ev.
    rewrite (set_next_nz _ _ _ Hx). cbn [bind]. rewrite (set_prev_nz _ _ _ Hx). cbn [bind].
    rewrite (set_in_nz _ _ _ Hx). cbn [bind].
    do 2 eexists. split; [reflexivity|]. split; [|split].
    + repeat split; cbn; auto; constructor.
    + now sf.
    + intros y Hy. assert (y <> x) by (intros ->; apply Hy; now left). now sf.
  - (* last element, with a predecessor *)
    rewrite last_last in *. cbn [hd last] in *. rewrite app_nil_r.
    pose proof S1 as S1'. apply seg_app in S1'. destruct S1' as (_ & S1b). cbn [seg hd] in S1b.
    destruct S1b as (Hpz & Hpp & Hpi & Hpn & _).
    assert (Hpx : pv <> x) by (intros ->; apply Nx1, in_or_app; right; now left).
    assert (Np : ~ In pv l1') by (apply NoDup_remove_2 in ND1; now rewrite app_nil_r in ND1).
    rewrite Hb. rewrite ?isnull_0. ev.
    rewrite (isnull_false pv Hpz). rewrite (H_nz hs pv Hpz). cbn [bind]. rewrite Hpn. ev.
    rewrite (set_next_nz _ _ _ Hpz). cbn [bind]. ev.
    rewrite (set_next_nz _ _ _ Hx). cbn [bind]. rewrite (set_prev_nz _ _ _ Hx). cbn [bind].
    rewrite (set_in_nz _ _ _ Hx). cbn [bind].
    do 2 eexists. split; [reflexivity|]. split; [|split].
    + split; [|split; [|split]]; cbn [l_front l_back].
      * rewrite Hf. now rewrite hd_app_nonnil by (destruct l1'; discriminate).
      * now rewrite last_last.
      * do 3 (apply seg_setf_notin; [exact Nx1|]).
        apply seg_set_last_next' with (q := x); [exact S1 | exact Np | reflexivity | reflexivity].
      * exact ND1.
    + now sf.
    + intros y Hy. assert (y <> x) by (intros ->; apply Hy, in_or_app; right; now left).
      assert (y <> pv) by (intros ->; apply Hy, in_or_app; left; apply in_or_app; right; now left). now sf.
  - (* first element, with a successor *)
    cbn [hd last app] in *. destruct S3 as (Hnz & Hnp & Hni & Hnn & S4).
    assert (Hnx : n <> x) by (intros ->; apply Nx2; now left).
    assert (Nn : ~ In n l2') by (inversion ND2'; assumption).
    rewrite (isnull_false n Hnz). rewrite (H_nz hs n Hnz). cbn [bind]. rewrite Hnp. ev.
    rewrite (set_prev_nz _ _ _ Hnz). cbn [bind]. rewrite ?isnull_0, Hf. ev.
    ev.
    rewrite (set_next_nz _ _ _ Hx). cbn [bind]. rewrite (set_prev_nz _ _ _ Hx). cbn [bind].
    rewrite (set_in_nz _ _ _ Hx). cbn [bind].
    do 2 eexists. split; [reflexivity|]. split; [|split].
    + split; [|split; [|split]]; cbn [l_front l_back hd].
      * reflexivity.
      * exact Hb.
      * do 3 (apply seg_setf_notin; [exact Nx2|]).
        apply seg_set_head_prev' with (p := x); [|exact Nn|reflexivity|reflexivity].
        apply seg_cons. repeat split; assumption.
      * exact ND2'.
    + now sf.
    + intros y Hy. assert (y <> x) by (intros ->; apply Hy; now left).
      assert (y <> n) by (intros ->; apply Hy; right; now left). now sf.
  - (* in the middle *)
    rewrite last_last in *. cbn [hd] in *. destruct S3 as (Hnz & Hnp & Hni & Hnn & S4).
    pose proof S1 as S1'. apply seg_app in S1'. destruct S1' as (_ & S1b). cbn [seg hd] in S1b.
    destruct S1b as (Hpz & Hpp & Hpi & Hpn & _).
    assert (Hnx : n <> x) by (intros ->; apply Nx2; now left).
    assert (Nn : ~ In n l2') by (inversion ND2'; assumption).
    assert (Hpx : pv <> x) by (intros ->; apply Nx1, in_or_app; right; now left).
    assert (Np : ~ In pv l1') by (apply NoDup_remove_2 in ND1; now rewrite app_nil_r in ND1).
    assert (Hpn' : pv <> n) by (intros ->; apply (Dj n); [apply in_or_app; right; now left | right; now left]).
    rewrite (isnull_false n Hnz). rewrite (H_nz hs n Hnz). cbn [bind]. rewrite Hnp. ev.
    rewrite (set_prev_nz _ _ _ Hnz). cbn [bind].
    rewrite (isnull_false pv Hpz). rewrite (H_nz _ pv Hpz). cbn [bind]. sf. rewrite Hpn. ev.
    rewrite (set_next_nz _ _ _ Hpz). cbn [bind]. ev.
    rewrite (set_next_nz _ _ _ Hx). cbn [bind]. rewrite (set_prev_nz _ _ _ Hx). cbn [bind].
    rewrite (set_in_nz _ _ _ Hx). cbn [bind].
    do 2 eexists. split; [reflexivity|]. split; [|split].
    + split; [|split; [|split]]; cbn [l_front l_back].
      * rewrite Hf. now rewrite (hd_app_nonnil (l1' ++ [pv]) (x :: n :: l2')), (hd_app_nonnil (l1' ++ [pv]) (n :: l2')) by (destruct l1'; discriminate).
      * rewrite Hb. now rewrite last_app_cons.
      * apply seg_app. split.
        -- cbn [hd]. do 3 (apply seg_setf_notin; [exact Nx1|]).
           apply seg_set_last_next' with (q := x); [|exact Np|now sf|now sf].
           apply seg_setf_notin; [intros C; apply (Dj n C); right; now left | exact S1].
        -- rewrite last_last. do 3 (apply seg_setf_notin; [exact Nx2|]).
           apply seg_setf_notin; [intros C; apply (Dj pv); [apply in_or_app; right; now left | now right]|].
           apply seg_set_head_prev' with (p := x); [|exact Nn|reflexivity|reflexivity].
           apply seg_cons. repeat split; assumption.
      * apply NoDup_app_comm_parts_inv; [exact ND1 | exact ND2'|].
        intros y Hy C. apply (Dj y Hy). now right.
    + now sf.
    + intros y Hy. assert (y <> x) by (intros ->; apply Hy, in_or_app; right; now left).
      assert (y <> n) by (intros ->; apply Hy, in_or_app; right; right; now left).
      assert (y <> pv) by (intros ->; apply Hy, in_or_app; left; apply in_or_app; right; now left). now sf.
Qed.

Lemma repr_nil_il0 hs O : repr hs O [] -> O = il0.
Proof. intros (Hf & Hb & _). destruct O as [f b]. cbn in *. now subst. Qed.

Lemma splice_ok hs L O l m :
  repr hs L l -> repr hs O m -> (forall x, In x l -> ~ In x m) ->
  exists hs' L', splice hs L 0 O = Ok (hs', L', il0) /\ repr hs' L' (l ++ m) /\
                 (forall y, ~ In y (l ++ m) -> hs' y = hs y).
Proof.
  intros RL RO Dj. pose proof RL as (Hf & Hb & S & ND). pose proof RO as (Of & Ob & OS & OND).
  unfold splice. rewrite isnull_0. ev.
  destruct m as [|b m'].
  - cbn [hd] in Of. rewrite Of, isnull_0. rewrite (repr_nil_il0 hs O RO).
    do 2 eexists. split; [reflexivity|]. rewrite app_nil_r. split; [exact RL | reflexivity].
  - cbn [hd] in Of. pose proof OS as (Hbz & Hbp & Hbi & Hbn & OS').
    rewrite Of, (isnull_false b Hbz). rewrite (H_nz hs b Hbz). cbn [bind]. rewrite Hbi, Hbp, isnull_0. ev.
    assert (Nb : ~ In b m') by (inversion OND; assumption).
    destruct (rev_case l) as [El|(l' & t & El)]; subst l.
    + cbn [last hd app] in *. rewrite Hb, isnull_0. ev.
      do 2 eexists. split; [reflexivity|]. split; [|reflexivity].
      split; [|split; [|split]]; cbn [l_front l_back hd]; auto.
    + rewrite last_last in Hb. pose proof S as S'. apply seg_app in S'. destruct S' as (_ & St). cbn [seg hd] in St.
      destruct St as (Htz & Htp & Hti & Htn & _).
      assert (Htb : t <> b) by (intros ->; apply (Dj b); [apply in_or_app; right; now left | now left]).
      assert (Nt : ~ In t l') by (apply NoDup_remove_2 in ND; now rewrite app_nil_r in ND).
      rewrite Hb, (isnull_false t Htz).
      rewrite (set_prev_nz _ _ _ Hbz). cbn [bind]. rewrite (set_next_nz _ _ _ Htz). ev.
      do 2 eexists. split; [reflexivity|]. split.
      * split; [|split; [|split]]; cbn [l_front l_back].
        -- rewrite Hf. now rewrite (hd_app_nonnil (l' ++ [t]) (b :: m')) by (destruct l'; discriminate).
        -- rewrite Ob. now rewrite last_app_cons.
        -- apply seg_app. split.
           ++ cbn [hd]. apply seg_set_last_next' with (q := 0); [|exact Nt|now sf|now sf].
              apply seg_setf_notin; [intros C; apply (Dj b C); now left | exact S].
           ++ rewrite last_last. apply seg_setf_notin; [intros C; apply (Dj t); [apply in_or_app; right; now left | exact C]|].
              apply seg_set_head_prev' with (p := 0); [exact OS | exact Nb | reflexivity | reflexivity].
        -- apply NoDup_app_comm_parts_inv; assumption.
      * intros y Hy. assert (y <> t) by (intros ->; apply Hy, in_or_app; left; apply in_or_app; right; now left).
        assert (y <> b) by (intros ->; apply Hy, in_or_app; right; now left). now sf.
Qed.

Lemma pop_front_ok hs L x l :
  repr hs L (x :: l) ->
  exists hs' L', pop_front hs L = Ok (hs', L', x) /\ repr hs' L' l /\ hs' x = hook0 /\
    (forall y, ~ In y (x :: l) -> hs' y = hs y).
Proof.
  intros R. pose proof R as (Hf & _ & S & _). cbn [hd] in Hf. destruct S as (Hx & _ & Hi & _).
  unfold pop_front. rewrite Hf, (H_nz hs x Hx). cbn [bind]. rewrite Hi. ev.
  apply (erase_ok hs L [] x l R).
Qed.

Lemma pop_back_ok hs L l x :
  repr hs L (l ++ [x]) ->
  exists hs' L', pop_back hs L = Ok (hs', L', x) /\ repr hs' L' l /\ hs' x = hook0 /\
    (forall y, ~ In y (l ++ [x]) -> hs' y = hs y).
Proof.
  intros R. pose proof R as (_ & Hb & S & _). rewrite last_last in Hb.
  apply seg_app in S. destruct S as (_ & S). cbn [seg] in S. destruct S as (Hx & _ & Hi & _).
  unfold pop_back. rewrite Hb, (H_nz hs x Hx). cbn [bind]. rewrite Hi. ev.
  destruct (erase_ok hs L l x [] R) as (hs' & L' & E & R' & Hh & Fr). rewrite app_nil_r in R'. eauto 8.
Qed.

Lemma clear_ok : forall l fuel hs L, repr hs L l -> length l <= fuel ->
  exists hs' L', clear fuel hs L = Ok (hs', L') /\ repr hs' L' [] /\
    (forall x, In x l -> hs' x = hook0) /\ (forall y, ~ In y l -> hs' y = hs y).
Proof.
  induction l as [|x l IH]; intros fuel hs L R F.
  - pose proof R as (Hf & _). cbn [hd] in Hf.
    exists hs, L. split; [|split; [exact R | split; [intros x [] | reflexivity]]].
    destruct fuel; cbn [clear]; unfold il_empty; now rewrite Hf.
  - pose proof R as (Hf & _ & S & ND). cbn [hd] in Hf. destruct S as (Hx & _).
    cbn [length] in F. destruct fuel as [|f]; [lia|]. cbn [clear]. unfold il_empty. rewrite Hf, (isnull_false x Hx).
    destruct (pop_front_ok hs L x l R) as (hs1 & L1 & E1 & R1 & H1 & F1). rewrite E1. cbn [bind].
    destruct (IH f hs1 L1 R1) as (hs2 & L2 & E2 & R2 & H2 & F2); [lia|].
    exists hs2, L2. split; [exact E2|]. split; [exact R2|]. split.
    + intros y [->|Hy]; [|now apply H2].
      rewrite F2; [exact H1 | inversion ND; assumption].
    + intros y Hy. rewrite F2 by (intros C; apply Hy; now right). apply F1. exact Hy.
Qed.

(* ---- the assertions that stop an operation *)
Lemma push_front_assert hs L x : x = 0 \/ h_in (hs x) = true -> push_front hs L x = AssertStop.
Proof.
  intros [->|Hi]; [reflexivity|]. unfold push_front. destruct (Nat.eqb_spec x 0) as [->|Hx]; [reflexivity|].
  rewrite (isnull_false x Hx). ev. rewrite (H_nz hs x Hx). cbn [bind]. now rewrite Hi.
Qed.
Lemma push_back_assert hs L x : x = 0 \/ h_in (hs x) = true -> push_back hs L x = AssertStop.
Proof.
  intros [->|Hi]; [reflexivity|]. unfold push_back. destruct (Nat.eqb_spec x 0) as [->|Hx]; [reflexivity|].
  rewrite (isnull_false x Hx). ev. rewrite (H_nz hs x Hx). cbn [bind]. now rewrite Hi.
Qed.
Lemma insert_assert hs L b x : x = 0 \/ h_in (hs x) = true -> insert hs L b x = AssertStop.
Proof.
  intros C. unfold insert. destruct (isnull b); [now apply push_back_assert|].
  destruct (Nat.eqb b (l_front L)); [now apply push_front_assert|].
  destruct C as [->|Hi]; [reflexivity|]. destruct (Nat.eqb_spec x 0) as [->|Hx]; [reflexivity|].
  rewrite (isnull_false x Hx). ev. rewrite (H_nz hs x Hx). cbn [bind]. now rewrite Hi.
Qed.
Lemma iterator_to_ok hs p : p <> 0 -> h_in (hs p) = true -> iterator_to hs p = Ok p.
Proof. intros Hp Hi. unfold iterator_to. rewrite (H_nz hs p Hp). cbn [bind]. now rewrite Hi. Qed.
Lemma iterator_to_assert hs p : p <> 0 -> h_in (hs p) = false -> iterator_to hs p = AssertStop.
Proof. intros Hp Hi. unfold iterator_to. rewrite (H_nz hs p Hp). cbn [bind]. now rewrite Hi. Qed.

(* ================================================================== refinement to lists (C13) *)
Definition nlists : nat := 2.
Definition astate := nat -> list nat.
Definition as0 : astate := fun _ => [].

Definition inb (x : nat) (l : list nat) : bool := existsb (Nat.eqb x) l.
Definition memb (als : astate) (x : nat) : bool := existsb (fun k => inb x (als k)) (seq 0 nlists).

Lemma inb_spec x l : inb x l = true <-> In x l.
Proof. unfold inb. rewrite existsb_exists. split; [intros (y & Hy & E); apply Nat.eqb_eq in E; now subst | intros H; exists x; split; [assumption | apply Nat.eqb_refl]]. Qed.

Definition iinv (st : ist) (als : astate) : Prop :=
  (forall k, repr (hooks st) (lists st k) (als k)) /\
  (forall k j x, In x (als k) -> In x (als j) -> k = j) /\
  (forall x, (forall k, ~ In x (als k)) -> hooks st x = hook0) /\
  (forall k, nlists <= k -> als k = []).

Lemma memb_spec st (als : astate) x : iinv st als -> (memb als x = true <-> exists k, In x (als k)).
Proof.
  intros (_ & _ & _ & Hb). unfold memb. rewrite existsb_exists. split.
  - intros (k & _ & Hk). exists k. now apply inb_spec.
  - intros (k & Hk). exists k. split; [|now apply inb_spec].
    apply in_seq. destruct (Nat.lt_ge_cases k nlists); [lia|]. rewrite (Hb k) in Hk by assumption. destruct Hk.
Qed.

Lemma memb_in st (als : astate) x : iinv st als -> x <> 0 -> memb als x = h_in (hooks st x).
Proof.
  intros I Hx. pose proof I as (R & _ & Z & _). destruct (memb als x) eqn:E.
  - apply (memb_spec st als x I) in E. destruct E as (k & Hk). destruct (R k) as (_ & _ & S & _).
    symmetry. eapply seg_in; eauto.
  - rewrite Z; [reflexivity|]. intros k Hk.
    assert (memb als x = true) by (apply (memb_spec st als x I); eauto). congruence.
Qed.

Fixpoint insert_before (b x : nat) (l : list nat) : list nat :=
  match l with
  | [] => [x]
  | y :: r => if Nat.eqb y b then x :: y :: r else y :: insert_before b x r
  end.
Fixpoint remove_one (x : nat) (l : list nat) : list nat :=
  match l with
  | [] => []
  | y :: r => if Nat.eqb y x then r else y :: remove_one x r
  end.

Lemma in_split_first (x : nat) l : In x l -> exists l1 l2, l = l1 ++ x :: l2 /\ ~ In x l1.
Proof.
  induction l as [|y r IH]; intros H; [destruct H|].
  destruct (Nat.eq_dec y x) as [->|N].
  - exists [], r. split; [reflexivity | intros []].
  - destruct H as [->|H]; [congruence|]. destruct (IH H) as (l1 & l2 & -> & N1).
    exists (y :: l1), l2. split; [reflexivity | intros [->|C]; [congruence | contradiction]].
Qed.
Lemma insert_before_split b x l1 l2 : ~ In b l1 -> insert_before b x (l1 ++ b :: l2) = l1 ++ x :: b :: l2.
Proof.
  induction l1 as [|y l1 IH]; intros N; cbn [app insert_before].
  - now rewrite Nat.eqb_refl.
  - destruct (Nat.eqb_spec y b) as [->|_]; [exfalso; apply N; now left|]. rewrite IH; [reflexivity | intros C; apply N; now right].
Qed.
Lemma remove_one_split x l1 l2 : ~ In x l1 -> remove_one x (l1 ++ x :: l2) = l1 ++ l2.
Proof.
  induction l1 as [|y l1 IH]; intros N; cbn [app remove_one].
  - now rewrite Nat.eqb_refl.
  - destruct (Nat.eqb_spec y x) as [->|_]; [exfalso; apply N; now left|]. rewrite IH; [reflexivity | intros C; apply N; now right].
Qed.

Inductive rres := ROk (als : astate) (o : out) | RAssert | RPre.

(* the reference: the same operation on lists of object ids.  RAssert = the library's assertion stops the
   operation (documented); RPre = a precondition the library cannot check is violated (excluded). *)
Definition iref_step (fuel : nat) (als : astate) (o : iop) : rres :=
  match o with
  | IPushFront l x =>
    if negb (Nat.ltb l nlists) then RPre else
    if Nat.eqb x 0 || memb als x then RAssert else ROk (setf als l (x :: als l)) OUnit
  | IPushBack l x =>
    if negb (Nat.ltb l nlists) then RPre else
    if Nat.eqb x 0 || memb als x then RAssert else ROk (setf als l (als l ++ [x])) OUnit
  | IInsert l b x =>
    if negb (Nat.ltb l nlists) then RPre else
    if Nat.eqb b 0 then
      if Nat.eqb x 0 || memb als x then RAssert else ROk (setf als l (als l ++ [x])) OUnit
    else if negb (memb als b) then RAssert
    else if negb (inb b (als l)) then RPre
    else if Nat.eqb x 0 || memb als x then RAssert else ROk (setf als l (insert_before b x (als l))) OUnit
  | IErase l x =>
    if negb (Nat.ltb l nlists) || Nat.eqb x 0 then RPre else
    if negb (memb als x) then RAssert else
    if negb (inb x (als l)) then RPre else ROk (setf als l (remove_one x (als l))) (OVal (N.of_nat x))
  | IPopFront l =>
    if negb (Nat.ltb l nlists) then RPre else
    match als l with [] => RPre | x :: r => ROk (setf als l r) (OVal (N.of_nat x)) end
  | IPopBack l =>
    if negb (Nat.ltb l nlists) then RPre else
    match als l with [] => RPre | _ => ROk (setf als l (removelast (als l))) (OVal (N.of_nat (last (als l) 0))) end
  | IClear l =>
    if negb (Nat.ltb l nlists) || negb (Nat.leb (length (als l)) fuel) then RPre else ROk (setf als l []) OUnit
  | ISplice l m =>
    if negb (Nat.ltb l nlists) || negb (Nat.ltb m nlists) || Nat.eqb l m then RPre else
    ROk (setf (setf als l (als l ++ als m)) m []) OUnit
  end.

(* replacing list k: only hooks of old or new members of k change; new members were members of k or free *)
Lemma iinv_update st (als : astate) hs' k L' l' :
  iinv st als -> k < nlists ->
  repr hs' L' l' ->
  (forall y, ~ In y (als k) -> ~ In y l' -> hs' y = hooks st y) ->
  (forall y, In y l' -> In y (als k) \/ (forall j, ~ In y (als j))) ->
  (forall y, In y (als k) -> ~ In y l' -> hs' y = hook0) ->
  iinv (mk_ist hs' (setf (lists st) k L')) (setf als k l').
Proof.
  intros (R & D & Z & B) Hk R' Fr New Rem. split; [|split; [|split]]; cbn [hooks lists].
  - intros j. unfold setf. destruct (Nat.eqb_spec j k) as [->|Nj]; [exact R'|].
    destruct (R j) as (Hf & Hb & S & ND). repeat split; auto.
    apply seg_frame with (hs := hooks st); [|exact S].
    intros y Hy. apply Fr.
    + intros C. apply Nj. eapply D; eauto.
    + intros C. destruct (New y C) as [C'|C']; [apply Nj; eapply D; eauto | exact (C' j Hy)].
  - intros i j x. unfold setf. destruct (Nat.eqb_spec i k) as [->|Ni]; destruct (Nat.eqb_spec j k) as [->|Nj]; auto.
    + intros Hx Hj. destruct (New x Hx) as [C|C]; [eapply D; eauto | destruct (C j Hj)].
    + intros Hi Hx. destruct (New x Hx) as [C|C]; [eapply D; eauto | destruct (C i Hi)].
    + apply D.
  - intros x Hx. destruct (in_dec Nat.eq_dec x (als k)) as [I|N].
    + apply Rem; [exact I|]. specialize (Hx k). unfold setf in Hx. now rewrite Nat.eqb_refl in Hx.
    + rewrite Fr; [|exact N|]. 
      * apply Z. intros j. destruct (Nat.eq_dec j k) as [->|Nj]; [exact N|].
        specialize (Hx j). unfold setf in Hx. destruct (Nat.eqb_spec j k); [contradiction | exact Hx].
      * specialize (Hx k). unfold setf in Hx. now rewrite Nat.eqb_refl in Hx.
  - intros j Hj. unfold setf. destruct (Nat.eqb_spec j k) as [->|_]; [lia | now apply B].
Qed.

Lemma not_memb st (als : astate) x : iinv st als -> memb als x = false -> forall k, ~ In x (als k).
Proof. intros I E k Hk. assert (memb als x = true) by (apply (memb_spec st als x I); eauto). congruence. Qed.

Lemma istep_refines fuel st (als : astate) o : iinv st als ->
  match iref_step fuel als o with
  | ROk als' out => exists st', istep fuel st o = Ok (st', out) /\ iinv st' als'
  | RAssert => istep fuel st o = AssertStop
  | RPre => True
  end.
Proof.
  intros Inv. pose proof Inv as (R & D & Z & B). destruct st as [hs ls]. cbn [hooks lists] in *.
  destruct o as [l x|l x|l b x|l x|l|l|l|l m]; cbn [iref_step istep hooks lists].
  - (* push_front *)
    destruct (Nat.ltb l nlists) eqn:El; cbn [negb]; [apply Nat.ltb_lt in El|exact I].
    destruct (Nat.eqb_spec x 0) as [->|Hx]; cbn [orb]; [reflexivity|].
    destruct (memb als x) eqn:Em.
    + rewrite (memb_in _ _ _ Inv Hx) in Em. cbn [hooks] in Em. now rewrite (push_front_assert hs (ls l) x (or_intror Em)).
    + pose proof (not_memb _ _ _ Inv Em) as Nm.
      destruct (push_front_ok hs (ls l) (als l) x (R l) Hx (Z x Nm) (Nm l)) as (hs' & L' & E & R' & Fr).
      rewrite E. cbn [bind]. eexists. split; [reflexivity|].
      apply (iinv_update (mk_ist hs ls) als hs' l L' (x :: als l) Inv El R').
      * intros y N1 N2. apply Fr; [intros ->; apply N2; now left | exact N1].
      * intros y [->|Hy]; [right; exact Nm | now left].
      * intros y Hy N. exfalso. apply N. now right.
  - (* push_back *)
    destruct (Nat.ltb l nlists) eqn:El; cbn [negb]; [apply Nat.ltb_lt in El|exact I].
    destruct (Nat.eqb_spec x 0) as [->|Hx]; cbn [orb]; [reflexivity|].
    destruct (memb als x) eqn:Em.
    + rewrite (memb_in _ _ _ Inv Hx) in Em. cbn [hooks] in Em. now rewrite (push_back_assert hs (ls l) x (or_intror Em)).
    + pose proof (not_memb _ _ _ Inv Em) as Nm.
      destruct (push_back_ok hs (ls l) (als l) x (R l) Hx (Z x Nm) (Nm l)) as (hs' & L' & E & R' & Fr).
      rewrite E. cbn [bind]. eexists. split; [reflexivity|].
      apply (iinv_update (mk_ist hs ls) als hs' l L' (als l ++ [x]) Inv El R').
      * intros y N1 N2. apply Fr; [intros ->; apply N2, in_or_app; right; now left | exact N1].
      * intros y Hy. apply in_app_or in Hy. destruct Hy as [Hy|[->|[]]]; [now left | right; exact Nm].
      * intros y Hy N. exfalso. apply N, in_or_app. now left.
  - (* insert *)
    destruct (Nat.ltb l nlists) eqn:El; cbn [negb]; [apply Nat.ltb_lt in El|exact I].
    destruct (Nat.eqb_spec b 0) as [->|Hb].
    + cbn [isnull Nat.eqb bind]. unfold insert. cbn [isnull Nat.eqb].
      destruct (Nat.eqb_spec x 0) as [->|Hx]; cbn [orb]; [reflexivity|].
      destruct (memb als x) eqn:Em.
      * rewrite (memb_in _ _ _ Inv Hx) in Em. cbn [hooks] in Em. now rewrite (push_back_assert hs (ls l) x (or_intror Em)).
      * pose proof (not_memb _ _ _ Inv Em) as Nm.
        destruct (push_back_ok hs (ls l) (als l) x (R l) Hx (Z x Nm) (Nm l)) as (hs' & L' & E & R' & Fr).
        rewrite E. cbn [bind]. eexists. split; [reflexivity|].
        apply (iinv_update (mk_ist hs ls) als hs' l L' (als l ++ [x]) Inv El R').
        -- intros y N1 N2. apply Fr; [intros ->; apply N2, in_or_app; right; now left | exact N1].
        -- intros y Hy. apply in_app_or in Hy. destruct Hy as [Hy|[->|[]]]; [now left | right; exact Nm].
        -- intros y Hy N. exfalso. apply N, in_or_app. now left.
    + rewrite (isnull_false b Hb).
      destruct (memb als b) eqn:Eb; cbn [negb].
      2:{ rewrite (memb_in _ _ _ Inv Hb) in Eb. cbn [hooks] in Eb. now rewrite (iterator_to_assert hs b Hb Eb). }
      pose proof Eb as Eb'. rewrite (memb_in _ _ _ Inv Hb) in Eb'. cbn [hooks] in Eb'.
      rewrite (iterator_to_ok hs b Hb Eb'). cbn [bind].
      destruct (inb b (als l)) eqn:Ei; cbn [negb]; [|exact I].
      apply inb_spec in Ei. destruct (in_split_first b (als l) Ei) as (l1 & l2 & Es & N1).
      destruct (Nat.eqb_spec x 0) as [->|Hx]; cbn [orb]; [now rewrite (insert_assert hs (ls l) b 0 (or_introl eq_refl))|].
      destruct (memb als x) eqn:Em.
      * rewrite (memb_in _ _ _ Inv Hx) in Em. cbn [hooks] in Em. now rewrite (insert_assert hs (ls l) b x (or_intror Em)).
      * pose proof (not_memb _ _ _ Inv Em) as Nm.
        pose proof (R l) as Rl. rewrite Es in Rl.
        assert (Nx : ~ In x (l1 ++ b :: l2)) by (rewrite <- Es; apply Nm).
        destruct (insert_ok hs (ls l) l1 b l2 x Rl Hx (Z x Nm) Nx) as (hs' & L' & E & R' & Fr).
        rewrite E. cbn [bind]. eexists. split; [reflexivity|].
        rewrite Es, (insert_before_split b x l1 l2 N1).
        assert (Eq : setf als l (l1 ++ x :: b :: l2) = setf als l (l1 ++ x :: b :: l2)) by reflexivity.
        apply (iinv_update (mk_ist hs ls) als hs' l L' (l1 ++ x :: b :: l2) Inv El R').
        -- intros y M1 M2. apply Fr; [intros ->; apply M2, in_or_app; right; now left | now rewrite <- Es].
        -- intros y Hy. apply in_app_or in Hy. rewrite Es.
           destruct Hy as [Hy|[->|Hy]]; [left; apply in_or_app; now left | right; exact Nm | left; apply in_or_app; now right].
        -- intros y Hy N. exfalso. apply N. rewrite Es in Hy. apply in_app_or in Hy. apply in_or_app.
           destruct Hy as [Hy|Hy]; [now left | right; now right].
  - (* erase *)
    destruct (Nat.ltb l nlists) eqn:El; cbn [negb orb]; [apply Nat.ltb_lt in El|exact I].
    destruct (Nat.eqb_spec x 0) as [->|Hx]; [exact I|].
    destruct (memb als x) eqn:Em; cbn [negb].
    2:{ rewrite (memb_in _ _ _ Inv Hx) in Em. cbn [hooks] in Em. now rewrite (iterator_to_assert hs x Hx Em). }
    pose proof Em as Em'. rewrite (memb_in _ _ _ Inv Hx) in Em'. cbn [hooks] in Em'.
    rewrite (iterator_to_ok hs x Hx Em'). cbn [bind].
    destruct (inb x (als l)) eqn:Ei; cbn [negb]; [|exact I].
    apply inb_spec in Ei. destruct (in_split_first x (als l) Ei) as (l1 & l2 & Es & N1).
    pose proof (R l) as Rl. rewrite Es in Rl.
    destruct (erase_ok hs (ls l) l1 x l2 Rl) as (hs' & L' & E & R' & Hh & Fr).
    rewrite E. cbn [bind]. eexists. split; [reflexivity|].
    rewrite Es, (remove_one_split x l1 l2 N1).
    destruct Rl as (_ & _ & _ & NDl).
    apply (iinv_update (mk_ist hs ls) als hs' l L' (l1 ++ l2) Inv El R').
    + intros y M1 M2. apply Fr. now rewrite <- Es.
    + intros y Hy. left. rewrite Es. apply in_app_or in Hy. apply in_or_app. destruct Hy; [now left | right; now right].
    + intros y Hy N. rewrite Es in Hy. apply in_app_or in Hy.
      destruct Hy as [Hy|[->|Hy]]; [exfalso; apply N, in_or_app; now left | exact Hh | exfalso; apply N, in_or_app; now right].
  - (* pop_front *)
    destruct (Nat.ltb l nlists) eqn:El; cbn [negb]; [apply Nat.ltb_lt in El|exact I].
    destruct (als l) as [|x r] eqn:Es; [exact I|].
    pose proof (R l) as Rl. rewrite Es in Rl.
    destruct (pop_front_ok hs (ls l) x r Rl) as (hs' & L' & E & R' & Hh & Fr).
    rewrite E. cbn [bind]. eexists. split; [reflexivity|].
    destruct Rl as (_ & _ & _ & NDl).
    apply (iinv_update (mk_ist hs ls) als hs' l L' r Inv El R').
    + intros y M1 M2. apply Fr. now rewrite <- Es.
    + intros y Hy. left. rewrite Es. now right.
    + intros y Hy N. rewrite Es in Hy. destruct Hy as [->|Hy]; [exact Hh | contradiction].
  - (* pop_back *)
    destruct (Nat.ltb l nlists) eqn:El; cbn [negb]; [apply Nat.ltb_lt in El|exact I].
    destruct (als l) as [|a r0] eqn:Es; [exact I|]. rewrite <- Es.
    assert (NE : als l <> []) by (rewrite Es; discriminate).
    destruct (exists_last NE) as (r & x & Er). clear Es a r0.
    pose proof (R l) as Rl. rewrite Er in Rl. rewrite Er, last_last, removelast_last.
    destruct (pop_back_ok hs (ls l) r x Rl) as (hs' & L' & E & R' & Hh & Fr).
    rewrite E. cbn [bind]. eexists. split; [reflexivity|].
    apply (iinv_update (mk_ist hs ls) als hs' l L' r Inv El R').
    + intros y M1 M2. apply Fr. now rewrite <- Er.
    + intros y Hy. left. rewrite Er. apply in_or_app. now left.
    + intros y Hy N. rewrite Er in Hy. apply in_app_or in Hy. destruct Hy as [Hy|[->|[]]]; [contradiction | exact Hh].
  - (* clear *)
    destruct (Nat.ltb l nlists) eqn:El; cbn [negb orb]; [apply Nat.ltb_lt in El|exact I].
    destruct (Nat.leb (length (als l)) fuel) eqn:Ef; cbn [negb]; [apply Nat.leb_le in Ef|exact I].
    destruct (clear_ok (als l) fuel hs (ls l) (R l) Ef) as (hs' & L' & E & R' & Hh & Fr).
    rewrite E. cbn [bind]. eexists. split; [reflexivity|].
    apply (iinv_update (mk_ist hs ls) als hs' l L' [] Inv El R').
    + intros y M1 _. now apply Fr.
    + intros y [].
    + intros y Hy _. now apply Hh.
  - (* splice *)
    destruct (Nat.ltb l nlists) eqn:El; cbn [negb orb]; [apply Nat.ltb_lt in El|exact I].
    destruct (Nat.ltb m nlists) eqn:Em; cbn [negb orb]; [apply Nat.ltb_lt in Em|exact I].
    destruct (Nat.eqb_spec l m) as [->|Nlm]; [exact I|].
    assert (Dj : forall x, In x (als l) -> ~ In x (als m)) by (intros x H1 H2; apply Nlm; eapply D; eauto).
    destruct (splice_ok hs (ls l) (ls m) (als l) (als m) (R l) (R m) Dj) as (hs' & L' & E & R' & Fr).
    rewrite E. cbn [bind]. eexists. split; [reflexivity|].
    assert (Nml : m <> l) by congruence.
    split; [|split; [|split]]; cbn [hooks lists].
    + intros j. unfold setf. destruct (Nat.eqb_spec j m) as [->|Njm].
      * repeat split; cbn; auto. constructor.
      * destruct (Nat.eqb_spec j l) as [->|Njl]; [exact R'|].
        destruct (R j) as (Hf & Hb & S & ND). repeat split; auto.
        apply seg_frame with (hs := hs); [|exact S].
        intros y Hy. apply Fr. intros C. apply in_app_or in C. destruct C as [C|C]; [apply Njl | apply Njm]; eapply D; eauto.
    + intros i j x. unfold setf.
      destruct (Nat.eqb_spec i m) as [->|Nim]; [intros []|].
      destruct (Nat.eqb_spec j m) as [->|Njm]; [intros _ []|].
      destruct (Nat.eqb_spec i l) as [->|Nil]; destruct (Nat.eqb_spec j l) as [->|Njl]; auto.
      * intros Hx Hj. apply in_app_or in Hx. destruct Hx as [Hx|Hx]; [eapply D; eauto | exfalso; apply Njm; eapply D; eauto].
      * intros Hi Hx. apply in_app_or in Hx. destruct Hx as [Hx|Hx]; [eapply D; eauto | exfalso; apply Nim; eapply D; eauto].
      * apply D.
    + intros x Hx. rewrite Fr.
      * apply Z. intros j Hj. destruct (Nat.eq_dec j m) as [->|Njm].
        -- apply (Hx l). unfold setf. rewrite (proj2 (Nat.eqb_neq l m) Nlm), Nat.eqb_refl. apply in_or_app. now right.
        -- destruct (Nat.eq_dec j l) as [->|Njl].
           ++ apply (Hx l). unfold setf. rewrite (proj2 (Nat.eqb_neq l m) Nlm), Nat.eqb_refl. apply in_or_app. now left.
           ++ apply (Hx j). unfold setf. now rewrite (proj2 (Nat.eqb_neq j m) Njm), (proj2 (Nat.eqb_neq j l) Njl).
      * specialize (Hx l). unfold setf in Hx. now rewrite (proj2 (Nat.eqb_neq l m) Nlm), Nat.eqb_refl in Hx.
    + intros j Hj. unfold setf. destruct (Nat.eqb_spec j m); [reflexivity|]. destruct (Nat.eqb_spec j l); [lia | now apply B].
Qed.

Inductive rfin := RDone (als : astate) | RStopAssert | RStopPre.

Fixpoint iref_run (fuel : nat) (als : astate) (ops : list iop) : list out * rfin :=
  match ops with
  | [] => ([], RDone als)
  | o :: r =>
    match iref_step fuel als o with
    | ROk als1 x => let '(xs, f) := iref_run fuel als1 r in (x :: xs, f)
    | RAssert => ([], RStopAssert)
    | RPre => ([], RStopPre)
    end
  end.

Lemma irun_refines fuel : forall ops st (als : astate), iinv st als ->
  match iref_run fuel als ops with
  | (outs, RDone als') => exists st', irun fuel st ops = Ok (st', outs) /\ iinv st' als'
  | (_, RStopAssert) => irun fuel st ops = AssertStop
  | (_, RStopPre) => True
  end.
Proof.
  induction ops as [|o ops IH]; intros st als Inv; cbn [iref_run irun].
  - eexists. split; [reflexivity | exact Inv].
  - pose proof (istep_refines fuel st als o Inv) as Hs.
    destruct (iref_step fuel als o) as [als1 x| |]; [|now rewrite Hs | exact I].
    destruct Hs as (st1 & E1 & Inv1). rewrite E1. cbn [bind].
    specialize (IH st1 als1 Inv1). destruct (iref_run fuel als1 ops) as [xs [als2| |]].
    + destruct IH as (st2 & E2 & Inv2). rewrite E2. cbn [bind]. eexists. split; [reflexivity | exact Inv2].
    + now rewrite IH.
    + exact I.
Qed.

Lemma iinv0 : iinv ist0 as0.
Proof.
  split; [|split; [|split]]; cbn.
  - intros k. repeat split; cbn; auto. constructor.
  - intros k j x [].
  - reflexivity.
  - reflexivity.
Qed.

(* what the invariant says about the links (C13_intrusive_links) *)
Lemma links_adjacent hs p q l1 a b l2 :
  seg hs p (l1 ++ a :: b :: l2) q -> h_next (hs a) = b /\ h_prev (hs b) = a.
Proof.
  intros S. apply seg_app in S. destruct S as (_ & S). apply seg_cons in S.
  destruct S as (_ & _ & _ & Hn & S). apply seg_cons in S. destruct S as (_ & Hp & _). now split.
Qed.
Lemma links_ends hs L l : repr hs L l -> l <> [] ->
  h_prev (hs (l_front L)) = 0 /\ h_next (hs (l_back L)) = 0 /\ l_front L <> 0 /\ l_back L <> 0.
Proof.
  intros (Hf & Hb & S & _) NE. destruct (exists_last NE) as (r & y & ->).
  rewrite Hb, last_last. pose proof S as S'. apply seg_app in S'. destruct S' as (_ & S2). cbn [seg hd] in S2.
  destruct S2 as (Hy & _ & _ & Hn & _).
  rewrite Hf. destruct r as [|x r']; cbn [app hd] in *.
  - destruct S as (_ & Hp & _). auto.
  - destruct S as (Hx & Hp & _). auto.
Qed.

Lemma iinv_links st (als : astate) fuel k : iinv st als -> length (als k) <= fuel ->
  walk fuel (hooks st) (l_front (lists st k)) = Ok (als k) /\
  walk_back fuel (hooks st) (l_back (lists st k)) = Ok (rev (als k)) /\
  (forall l1 a b l2, als k = l1 ++ a :: b :: l2 ->
     h_next (hooks st a) = b /\ h_prev (hooks st b) = a) /\
  (als k <> [] -> h_prev (hooks st (l_front (lists st k))) = 0 /\ h_next (hooks st (l_back (lists st k))) = 0) /\
  (il_empty (lists st k) = true <-> als k = []).
Proof.
  intros Inv F. pose proof Inv as (R & _). destruct (R k) as (Hf & Hb & S & ND).
  split; [rewrite Hf; now apply walk_seg with (p := 0)|].
  split; [rewrite Hb; now apply walk_back_repr|].
  split; [intros l1 a b l2 E; rewrite E in S; eapply links_adjacent; eauto|].
  split; [intros NE; destruct (links_ends _ _ _ (R k) NE) as (A & B & _); auto|].
  unfold il_empty, isnull. rewrite Hf. destruct (als k) as [|x r]; cbn [hd].
  - split; reflexivity.
  - destruct S as (Hx & _). split; [intros E; apply Nat.eqb_eq in E; contradiction | discriminate].
Qed.

Lemma iinv_members st (als : astate) x : iinv st als -> x <> 0 ->
  (h_in (hooks st x) = true <-> exists k, In x (als k)) /\
  ((forall k, ~ In x (als k)) -> hooks st x = hook0).
Proof.
  intros Inv Hx. split.
  - rewrite <- (memb_in st als x Inv Hx). apply (memb_spec st als x Inv).
  - destruct Inv as (_ & _ & Z & _). apply Z.
Qed.
