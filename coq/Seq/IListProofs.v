(* frg::intrusive_list: the pointer-level model refines lists (C13). *)
From Coq Require Import List NArith Arith Bool Lia.
From FV Require Import Seq.SlotModel Seq.IListModel.
Import ListNotations.

(* the hooks of the objects in l form a doubly linked segment: p precedes its head, q follows its last *)
Fixpoint seg (hs : nat -> hook) (p : nat) (l : list nat) (q : nat) : Prop :=
  match l with
  | [] => True
  | x :: r => x <> 0 /\ h_prev (hs x) = p /\ h_in (hs x) = true /\ h_next (hs x) = hd q r /\ seg hs x r q
  end.

(* the list object L over the heap hs represents l *)
Definition repr (hs : nat -> hook) (L : ilist) (l : list nat) : Prop :=
  l_front L = hd 0 l /\ l_back L = last l 0 /\ seg hs 0 l 0 /\ NoDup l.

Lemma seg_frame hs hs' p l q : (forall x, In x l -> hs' x = hs x) -> seg hs p l q -> seg hs' p l q.
Proof.
  revert p. induction l as [|x r IH]; intros p F S; [exact I|].
  cbn [seg] in *. destruct S as (Hx & Hp & Hi & Hn & Hr).
  rewrite (F x (or_introl eq_refl)). repeat split; auto.
  apply IH; auto. intros y Hy. apply F. now right.
Qed.

Lemma seg_setf_notin hs k v p l q : ~ In k l -> seg hs p l q -> seg (setf hs k v) p l q.
Proof.
  intros N. apply seg_frame. intros x Hx. unfold setf.
  destruct (Nat.eqb_spec x k); [subst; contradiction | reflexivity].
Qed.

Lemma last_cons {A} (x : A) r d : last (x :: r) d = last r x.
Proof.
  revert x d. induction r as [|y r IH]; intros x d; [reflexivity|].
  change (last (x :: y :: r) d) with (last (y :: r) d). now rewrite !IH.
Qed.

Lemma seg_app hs p l1 l2 q :
  seg hs p (l1 ++ l2) q <-> seg hs p l1 (hd q l2) /\ seg hs (last l1 p) l2 q.
Proof.
  revert p. induction l1 as [|x r IH]; intros p.
  - cbn [app seg last]. tauto.
  - cbn [app seg]. rewrite IH.
    assert (E1 : hd q (r ++ l2) = hd (hd q l2) r) by (destruct r; reflexivity).
    assert (E2 : last (x :: r) p = last r x) by apply last_cons.
    rewrite E1, E2. tauto.
Qed.

Lemma seg_nonzero hs p l q x : seg hs p l q -> In x l -> x <> 0.
Proof.
  revert p. induction l as [|y r IH]; intros p S Hx; [destruct Hx|].
  destruct S as (Hy & _ & _ & _ & Hr). destruct Hx as [->|Hx]; [exact Hy | eapply IH; eauto].
Qed.
Lemma seg_in hs p l q x : seg hs p l q -> In x l -> h_in (hs x) = true.
Proof.
  revert p. induction l as [|y r IH]; intros p S Hx; [destruct Hx|].
  destruct S as (_ & _ & Hi & _ & Hr). destruct Hx as [->|Hx]; [exact Hi | eapply IH; eauto].
Qed.

(* change of the predecessor link of the head / the successor link of the last element *)
Lemma seg_set_head_prev hs p p' y r q :
  seg hs p (y :: r) q -> ~ In y r ->
  seg (setf hs y (mk_hook (h_next (hs y)) p' (h_in (hs y)))) p' (y :: r) q.
Proof.
  intros (Hy & Hp & Hi & Hn & Hr) N. cbn [seg]. unfold setf at 1 2 3. rewrite Nat.eqb_refl. cbn.
  repeat split; auto. now apply seg_setf_notin.
Qed.
Lemma seg_set_last_next hs p l y q q' :
  seg hs p (l ++ [y]) q -> ~ In y l ->
  seg (setf hs y (mk_hook q' (h_prev (hs y)) (h_in (hs y)))) p (l ++ [y]) q'.
Proof.
  intros S N. apply seg_app in S. destruct S as (S1 & S2). apply seg_app. split.
  - cbn [hd] in *. now apply seg_setf_notin.
  - cbn [seg] in *. destruct S2 as (Hy & Hp & Hi & Hn & _). unfold setf. rewrite Nat.eqb_refl. cbn.
    repeat split; auto.
Qed.

Lemma last_app_cons {A} (l : list A) x r d : last (l ++ x :: r) d = last (x :: r) d.
Proof. induction l as [|a l IH]; [reflexivity|]. cbn [app]. rewrite <- IH. destruct (l ++ x :: r) eqn:E; [destruct l; discriminate | reflexivity]. Qed.
Lemma last_cons_default {A} (x : A) r d d' : last (x :: r) d = last (x :: r) d'.
Proof. revert x. induction r as [|y r IH]; intros x; [reflexivity|]. change (last (y :: r) d = last (y :: r) d'). apply IH. Qed.

(* ---- iteration *)
Lemma walk_seg hs : forall l p fuel, seg hs p l 0 -> length l <= fuel -> walk fuel hs (hd 0 l) = Ok l.
Proof.
  induction l as [|x r IH]; intros p fuel S F.
  - destruct fuel; reflexivity.
  - destruct S as (Hx & _ & _ & Hn & Hr). cbn [hd length] in *.
    destruct fuel as [|f]; [lia|]. cbn [walk]. unfold isnull.
    destruct (Nat.eqb_spec x 0); [contradiction|]. rewrite Hn.
    rewrite (IH x f Hr) by lia. reflexivity.
Qed.

Lemma last_default {A} (l : list A) d d' : l <> [] -> last l d = last l d'.
Proof. destruct l as [|x r]; [congruence|]. intros _. apply last_cons_default. Qed.

Lemma walk_back_seg hs : forall l p q fuel, seg hs p l q -> l <> [] -> length l <= fuel ->
  walk_back fuel hs (last l 0) = bind (walk_back (fuel - length l) hs p) (fun r => Ok (rev l ++ r)).
Proof.
  induction l as [|y l IH] using rev_ind; intros p q fuel S NE F; [congruence|].
  apply seg_app in S. destruct S as (S1 & S2). cbn [seg hd] in S2. destruct S2 as (Hy & Hp & _ & _ & _).
  rewrite last_last. rewrite app_length in F |- *. cbn [length] in F |- *.
  destruct fuel as [|f]; [lia|]. cbn [walk_back]. unfold isnull. destruct (Nat.eqb_spec y 0); [contradiction|].
  rewrite Hp. rewrite rev_app_distr. cbn [rev app].
  replace (S f - (length l + 1)) with (f - length l) by lia.
  destruct l as [|z l'].
  - cbn [last length]. rewrite Nat.sub_0_r. destruct (walk_back f hs p); reflexivity.
  - rewrite (last_default (z :: l') p 0) by congruence.
    rewrite (IH p y f S1) by (cbn [length] in *; try congruence; lia).
    destruct (walk_back (f - length (z :: l')) hs p); cbn [bind]; try reflexivity.
Qed.

Lemma walk_back_repr hs l fuel : seg hs 0 l 0 -> length l <= fuel -> walk_back fuel hs (last l 0) = Ok (rev l).
Proof.
  intros S F. destruct l as [|x r] eqn:E.
  - destruct fuel; reflexivity.
  - rewrite <- E in *. rewrite (walk_back_seg hs l 0 0 fuel S) by (subst; try congruence; lia).
    destruct (fuel - length l); cbn [walk_back isnull Nat.eqb bind]; now rewrite app_nil_r.
Qed.
