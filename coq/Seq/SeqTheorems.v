(* The C13 statements, assembled from the per-container proof files (Properties_C13.v only restates them). *)
From Coq Require Import List NArith Arith Bool Lia.
From FV Require Import Common.EventLog Seq.SlotModel Seq.SlotProofs Seq.VectorModel Seq.VectorProofs
  Seq.SmallVectorModel Seq.SmallVectorProofs Seq.DynArrayModel Seq.StackModel Seq.ListModel Seq.DynStackListProofs
  Seq.IListModel Seq.IListProofs.
Import ListNotations.

Lemma vector_refines_list : forall esz veq ops, ref_ok veq rs0 ops ->
  exists st evs,
    vrun esz veq vst0 ops = Ok (st, snd (ref_run veq rs0 ops), evs) /\
    forall r, let l := fst (ref_run veq rs0 ops) r in
      size (regs st r) = length l /\
      (empty (regs st r) = true <-> l = []) /\
      iterate (regs st r) = map Some l /\
      (forall i, i < length l -> index (regs st r) i = Ok (nth i l 0%N)) /\
      (l <> [] -> front (regs st r) = Ok (hd 0%N l) /\ back (regs st r) = Ok (last l 0%N)) /\
      length (v_cells (regs st r)) = v_cap (regs st r).
Proof.
  intros esz veq ops K. destruct (vrun_refines esz veq ops vst0 rs0 vrel0 K) as (st & e & H & R).
  exists st, e. split; [exact H|]. intros r. apply (observers _ _ (R r)).
Qed.

Lemma small_vector_refines_list : forall esz NI ops, sref_ok rs0 ops ->
  match sref_run rs0 ops with
  | Some (rs, outs) =>
    exists st evs,
      srun esz NI (sst0 NI) ops = Ok (st, outs, evs) /\
      forall r, let l := rs r in
        sv_size (sregs st r) = length l /\
        (sv_is_empty (sregs st r) = true <-> l = []) /\
        sv_iterate NI (sregs st r) = map Some l /\
        (forall i, i < length l -> sv_index NI (sregs st r) i = Ok (nth i l 0%N)) /\
        (l <> [] -> sv_front NI (sregs st r) = Ok (hd 0%N l) /\ sv_back NI (sregs st r) = Ok (last l 0%N)) /\
        length (cont NI (sregs st r)) = s_cap (sregs st r) /\
        (is_small NI (sregs st r) = true <-> s_cap (sregs st r) <= NI)
  | None => srun esz NI (sst0 NI) ops = AssertStop
  end.
Proof.
  intros esz NI ops K. pose proof (srun_refines esz NI ops (sst0 NI) rs0 (srel0 NI) K) as H.
  destruct (sref_run rs0 ops) as [[rs outs]|]; [|exact H].
  destruct H as (st & e & H & R). exists st, e. split; [exact H|]. intros r. apply (sv_observers NI _ _ (R r)).
Qed.

Lemma dyn_array_refines_list : forall esz ops, dref_ok rs0 ops ->
  exists st evs,
    drun esz dst0 ops = Ok (st, snd (dref_run rs0 ops), evs) /\
    forall r, let l := fst (dref_run rs0 ops) r in
      da_size (dregs st r) = length l /\
      (da_empty (dregs st r) = true <-> l = []) /\
      (da_empty (dregs st r) = true <-> da_size (dregs st r) = 0) /\
      da_iterate (dregs st r) = map Some l /\
      (forall i, i < length l -> da_index (dregs st r) i = Ok (nth i l 0%N)).
Proof.
  intros esz ops K. destruct (drun_refines esz ops dst0 rs0 drel0 K) as (st & e & H & R).
  exists st, e. split; [exact H|]. intros r. apply (da_observers _ _ (R r)).
Qed.

(* == is list equality under the element type's operator==; it is Leibniz list equality exactly when the
   element equality is *)
Lemma vector_eq_is_list_equality : forall veq a b,
  (list_eqb veq a b = true <-> length a = length b /\ forall i, i < length a -> veq (nth i a 0%N) (nth i b 0%N) = true) /\
  ((forall x y, veq x y = true <-> x = y) -> (list_eqb veq a b = true <-> a = b)).
Proof. intros veq a b. split; [apply list_eqb_spec | intros H; now apply list_eqb_eq]. Qed.

Lemma dyn_array_empty : forall d, da_empty d = true <-> da_size d = 0.
Proof. intros d. unfold da_empty, da_size. apply Nat.eqb_eq. Qed.

Lemma stack_refines_list : forall esz ops, kref_ok [] ops ->
  exists st evs,
    krun esz (stk_empty, 1) ops = Ok (st, snd (kref_run [] ops), evs) /\
    let l := fst (kref_run [] ops) in
      stk_size (fst st) = length l /\ (stk_is_empty (fst st) = true <-> l = []) /\
      (l <> [] -> stk_top (fst st) = Ok (last l 0%N)).
Proof.
  intros esz ops K. destruct (krun_refines esz ops _ [] kinv0 K) as (st & e & H & R).
  exists st, e. split; [exact H|]. apply (stk_observers _ _ R).
Qed.

Lemma list_refines_list : forall isz ops, lref_ok [] ops ->
  exists st evs,
    lrun isz (fl_empty, 1) ops = Ok (st, snd (lref_run [] ops), evs) /\
    let l := fst (lref_run [] ops) in
      fabs (fst st) = l /\ (fl_is_empty (fst st) = true <-> l = []) /\
      (l <> [] -> fl_front (fst st) = Ok (hd 0%N l)).
Proof.
  intros isz ops K. destruct (lrun_refines isz ops (fl_empty, 1) K) as (st & e & H & R).
  exists st, e. split; [exact H|]. cbn [fst fabs fl_empty items map] in R. cbn zeta. rewrite <- R.
  split; [reflexivity|]. apply fl_observers.
Qed.

Lemma intrusive_list_refines_list : forall fuel ops,
  match iref_run fuel as0 ops with
  | (outs, RDone als) => exists st, irun fuel ist0 ops = Ok (st, outs) /\ iinv st als
  | (_, RStopAssert) => irun fuel ist0 ops = AssertStop
  | (_, RStopPre) => True
  end.
Proof. intros fuel ops. apply irun_refines. exact iinv0. Qed.

Lemma intrusive_links : forall fuel ops outs als,
  iref_run fuel as0 ops = (outs, RDone als) ->
  exists st, irun fuel ist0 ops = Ok (st, outs) /\
    (forall k, length (als k) <= fuel ->
       walk fuel (hooks st) (l_front (lists st k)) = Ok (als k) /\
       walk_back fuel (hooks st) (l_back (lists st k)) = Ok (rev (als k)) /\
       (forall l1 a b l2, als k = l1 ++ a :: b :: l2 -> h_next (hooks st a) = b /\ h_prev (hooks st b) = a) /\
       (als k <> [] -> h_prev (hooks st (l_front (lists st k))) = 0 /\ h_next (hooks st (l_back (lists st k))) = 0) /\
       (il_empty (lists st k) = true <-> als k = [])) /\
    (forall x, x <> 0 ->
       (h_in (hooks st x) = true <-> exists k, In x (als k)) /\
       ((forall k, ~ In x (als k)) -> hooks st x = hook0)).
Proof.
  intros fuel ops outs als E. pose proof (intrusive_list_refines_list fuel ops) as H. rewrite E in H.
  destruct H as (st & Hr & Inv). exists st. split; [exact Hr|]. split.
  - intros k F. now apply iinv_links.
  - intros x Hx. now apply iinv_members.
Qed.

(* In the models every slot access outside the buffer, every read/destroy of a raw slot and every construction
   over a live one is UB; so "runs without UB" is "touches only owned storage, reads only constructed elements". *)
Lemma owned_storage_only :
  (forall b i v, rd b i = Ok v -> i < length b /\ nth_error b i = Some (Some v)) /\
  (forall b i v b', construct b i v = Ok b' -> i < length b /\ nth_error b i = Some None) /\
  (forall b i b', destroy b i = Ok b' -> i < length b /\ exists v, nth_error b i = Some (Some v)) /\
  (forall esz veq ops, ref_ok veq rs0 ops ->
     exists st outs evs, vrun esz veq vst0 ops = Ok (st, outs, evs) /\
       forall r, length (v_cells (regs st r)) = v_cap (regs st r) /\ v_size (regs st r) <= v_cap (regs st r)) /\
  (forall esz NI ops, sref_ok rs0 ops ->
     srun esz NI (sst0 NI) ops = AssertStop \/
     exists st outs evs, srun esz NI (sst0 NI) ops = Ok (st, outs, evs) /\
       forall r, length (cont NI (sregs st r)) = s_cap (sregs st r) /\ s_size (sregs st r) <= s_cap (sregs st r) /\
                 length (s_inl (sregs st r)) = NI).
Proof.
  split; [|split; [|split; [|split]]].
  - intros b i v H. apply rd_ok in H. split; [eapply nth_error_in_bounds; eauto | exact H].
  - intros b i v b' H. apply construct_ok in H. destruct H as [H _]. split; [eapply nth_error_in_bounds; eauto | exact H].
  - intros b i b' H. apply destroy_ok in H. destruct H as [[v H] _]. split; [eapply nth_error_in_bounds; eauto | eauto].
  - intros esz veq ops K. destruct (vrun_refines esz veq ops vst0 rs0 vrel0 K) as (st & e & H & R).
    do 3 eexists. split; [exact H|]. intros r. destruct (R r) as (Hs & Hc & Hcells). split.
    + rewrite Hcells. now apply slots_length.
    + lia.
  - intros esz NI ops K. pose proof (srun_refines esz NI ops (sst0 NI) rs0 (srel0 NI) K) as H.
    destruct (sref_run rs0 ops) as [[rs outs]|]; [right | now left].
    destruct H as (st & e & H & R). do 3 eexists. split; [exact H|]. intros r.
    pose proof (R r) as Hr. pose proof Hr as (Hs & Hc & _). split; [|split].
    + rewrite (sinv_cont NI _ _ Hr). now apply slots_length.
    + lia.
    + eapply sinv_inl_length; eauto.
Qed.
