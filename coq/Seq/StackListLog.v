(* frg::stack and frg::list: the event log of every operation sequence followed by the destructor is
   well-formed and closed (C16). *)
From Coq Require Import List NArith Arith Bool Lia.
From FV Require Import Common.EventLog Seq.SlotModel Seq.SlotProofs Seq.LogProofs Seq.Footprint
  Seq.VectorModel Seq.VectorProofs Seq.VectorLog Seq.StackModel Seq.ListModel Seq.DynStackListProofs Seq.IListProofs.
Import ListNotations.

Section Stack.
Variable esz : N.

Definition kfs (s : stk) : nat -> fpr := fun i => if Nat.eqb i 0 then vfp esz (container s) else fp0.

Lemma kstep_log st l o ls :
  kinv st l -> vok 0 (container (fst st)) -> TR ls (kfs (fst st)) (NINST * snd st) -> kref_pre l o ->
  exists st' e ls', kstep esz st o = Ok (st', snd (kref_step l o), e) /\ ev_run ls e = Some ls' /\
    kinv st' (fst (kref_step l o)) /\ vok 0 (container (fst st')) /\ TR ls' (kfs (fst st')) (NINST * snd st').
Proof.
  intros H Z T P. destruct st as [[v] nb]. unfold kinv in *. cbn [fst snd container] in *.
  pose proof (TR_nz _ _ _ T) as Nz. assert (Nb : nb <> 0) by (unfold NINST in Nz; lia).
  assert (F0 : kfs (mk_stk v) 0 = vfp esz v) by reflexivity.
  assert (Ext : forall v' j, kfs (mk_stk v') j = set_reg (kfs (mk_stk v)) 0 (vfp esz v') j).
  { intros v' j. unfold kfs, set_reg. cbn [container]. destruct (Nat.eqb j 0); reflexivity. }
  destruct o as [x|x| |]; cbn [kstep kref_step fst snd kref_pre] in *; unfold stk_push, stk_pop, stk_top; cbn [container].
  1-2: (destruct (g_push esz ls _ 0 nb 0 v l x T) as (l1 & E1 & T1); [lia | exact F0 | exact H | exact Z|];
        rewrite (push_eq esz 0 nb x v l H); cbn [bind]; do 3 eexists; split; [reflexivity|]; split; [exact E1|];
        cbn [fst snd container]; split; [now apply pushed_inv|]; split;
        [apply (vok_same_blk _ (grown (enc 0 nb) (length l + 1) v l)); [reflexivity | reflexivity | now apply vok_grown]
        | eapply TR_ext; [|exact T1]; intros j; apply Ext]).
  - destruct (exists_last P) as (l' & x & ->).
    destruct (g_pop esz ls _ (NINST * nb) 0 v l' x T) as (l1 & E1 & T1); [lia | exact F0 | exact H|].
    rewrite (pop_eq v l' x H). cbn [bind]. rewrite removelast_last.
    do 3 eexists. split; [reflexivity|]. split; [exact E1|]. cbn [fst snd container].
    split; [eapply popped_inv; exact H|]. split; [apply (vok_same_blk _ v); [reflexivity | reflexivity | exact Z]|].
    eapply TR_ext; [|exact T1]. intros j. apply Ext.
  - destruct (exists_last P) as (l' & x & ->). rewrite (back_eq v l' x H). cbn [bind]. rewrite last_last.
    do 3 eexists. split; [reflexivity|]. split; [reflexivity|]. cbn [fst snd container]. auto.
Qed.

Lemma krun_log : forall ops st l ls,
  kinv st l -> vok 0 (container (fst st)) -> TR ls (kfs (fst st)) (NINST * snd st) -> kref_ok l ops ->
  exists st' e ls', krun esz st ops = Ok (st', snd (kref_run l ops), e) /\ ev_run ls e = Some ls' /\
    kinv st' (fst (kref_run l ops)) /\ vok 0 (container (fst st')) /\ TR ls' (kfs (fst st')) (NINST * snd st').
Proof.
  induction ops as [|o ops IH]; intros st l ls R Z T K.
  - exists st, [], ls. split; [reflexivity|]. split; [reflexivity|]. split; [exact R|]. split; assumption.
  - destruct K as [P K]. destruct (kstep_log st l o ls R Z T P) as (st1 & e1 & l1 & H1 & E1 & R1 & Z1 & T1).
    cbn [krun kref_run]. rewrite H1. cbn [bind].
    destruct (kref_step l o) as [la x] eqn:Es. cbn [fst snd] in *.
    destruct (IH st1 la l1 R1 Z1 T1 K) as (st2 & e2 & l2 & H2 & E2 & R2 & Z2 & T2). rewrite H2. cbn [bind].
    destruct (kref_run la ops) as [lb xs]. cbn [fst snd] in *.
    exists st2, (e1 ++ e2), l2. split; [reflexivity|]. split; [rewrite (ev_run_app_some _ _ _ _ E1); exact E2|].
    split; [exact R2|]. split; assumption.
Qed.

Theorem stack_log_wf : forall ops, kref_ok [] ops ->
  exists st outs e fin, krun esz (stk_empty, 1) ops = Ok (st, outs, e) /\ kfinish st = Ok fin /\ wf_closed (e ++ fin) = true.
Proof.
  intros ops K.
  assert (T0 : TR ls0 (kfs stk_empty) (NINST * 1)).
  { assert (E : forall j, kfs stk_empty j = fp0) by (intros j; unfold kfs; destruct (Nat.eqb j 0); reflexivity).
    split; [|split].
    - eapply tracks_ext; [|apply (tracks_ls0 VK)]. intros j _. apply E.
    - split; [unfold NINST; lia|]. split.
      + intros j _. rewrite E. apply fp_ok_fp0. unfold NINST. lia.
      + intros i j _ _ _. rewrite !E. apply sep_fp0.
    - apply E. }
  assert (Z0 : vok 0 (container (fst (stk_empty, 1)))) by (apply vok_empty; unfold NINST; lia).
  destruct (krun_log ops (stk_empty, 1) [] ls0 kinv0 Z0 T0 K) as (st & e & l1 & H & E & R & Z & T).
  destruct st as [[v] nb]. unfold kinv in R. cbn [fst snd container] in *.
  destruct (g_destruct esz l1 _ 0 _ 0 v (fst (kref_run [] ops)) T) as (l2 & E2 & T2); [lia | reflexivity | exact R | apply Z|].
  exists (mk_stk v, nb), (snd (kref_run [] ops)), e. eexists. split; [exact H|]. split.
  - unfold kfinish, stk_destruct. cbn [fst container]. apply (destruct_eq 0 v _ R).
  - destruct (tracks_all_empty VK l2) as (B & L).
    { destruct T2 as (T2 & _). eapply tracks_ext; [|exact T2]. intros j _. unfold set_reg, kfs. destruct (Nat.eqb j 0); reflexivity. }
    apply (wf_closed_of_run _ l2); [rewrite (ev_run_app_some _ _ _ _ E); exact E2 | exact B | exact L].
Qed.
End Stack.

(* -------------------------------------------------------------------------------------- frg::list *)
Section FList.
Variable isz : N.

Definition linv (ls : lstate) (it : list (nat * V)) (nb : nat) : Prop :=
  (forall b n, has_block b ls = Some n <-> n = isz /\ In b (map fst it)) /\
  (forall o, is_live o ls = true <-> snd o = 0 /\ In (fst o) (map fst it)) /\
  NoDup (map fst it) /\ (forall b, In b (map fst it) -> b <> 0 /\ b < nb) /\ nb <> 0.

Lemma linv_emplace ls it nb x : linv ls it nb ->
  exists ls', ev_run ls [EAlloc nb isz; EConstruct (nb, 0)] = Some ls' /\ linv ls' (it ++ [(nb, x)]) (S nb).
Proof.
  intros (B & L & ND & Bd & Nz).
  assert (Fresh : ~ In nb (map fst it)) by (intros C; destruct (Bd nb C); lia).
  assert (Hn : has_block nb ls = None).
  { destruct (has_block nb ls) as [n|] eqn:E; [|reflexivity]. apply (B nb n) in E. destruct E. contradiction. }
  destruct (step_alloc ls nb isz Nz Hn) as (l1 & E1 & B1 & L1).
  destruct (step_construct l1 (nb, 0)) as (l2 & E2 & B2 & L2).
  { right. cbn [fst]. rewrite B1, Nat.eqb_refl. discriminate. }
  { rewrite L1. destruct (is_live (nb, 0) ls) eqn:E; [|reflexivity]. apply (L _) in E. destruct E as [_ E]. contradiction. }
  exists l2. split; [cbn [ev_run]; now rewrite E1, E2|].
  unfold linv. rewrite map_app. cbn [map fst]. split; [|split; [|split; [|split]]].
  - intros b n. rewrite B2, B1. rewrite in_app_iff. cbn [In]. destruct (Nat.eqb_spec b nb) as [->|N].
    + split; [intros H; inversion H; auto | intros [-> _]; reflexivity].
    + rewrite (B b n). split; [intros [? ?]; auto | intros [? [?|[?|[]]]]; [auto | congruence]].
  - intros o. rewrite L2, L1. rewrite in_app_iff. cbn [In]. destruct (obj_eqb_spec o (nb, 0)) as [->|N]; cbn [orb].
    + split; [intros _; cbn; auto | reflexivity].
    + rewrite (L o). split; [intros [? ?]; auto | intros [? [?|[?|[]]]]; [auto|]]. exfalso. apply N. destruct o; cbn in *; congruence.
  - apply NoDup_app_snoc; assumption.
  - intros b Hb. apply in_app_or in Hb. destruct Hb as [Hb|[<-|[]]]; [destruct (Bd b Hb); lia | lia].
  - lia.
Qed.

Lemma linv_pop ls b x r nb : linv ls ((b, x) :: r) nb ->
  exists ls', ev_run ls [EDestroy (b, 0); EDealloc b isz] = Some ls' /\ linv ls' r nb.
Proof.
  intros (B & L & ND & Bd & Nz). cbn [map fst] in *. inversion ND as [|? ? Nb NDr]; subst.
  destruct (step_destroy ls (b, 0)) as (l1 & E1 & B1 & L1); [apply (L _); cbn; auto|].
  destruct (step_dealloc l1 b isz) as (l2 & E2 & B2 & L2).
  { rewrite B1. apply (B b isz). cbn; auto. }
  { intros o Ho Eo. rewrite L1 in Ho. apply andb_true_iff in Ho. destruct Ho as [Ho No]. apply (L _) in Ho. destruct Ho as [Hs _].
    destruct (obj_eqb_spec (b, 0) o) as [|N]; [discriminate|]. apply N. destruct o; cbn in *; congruence. }
  exists l2. split; [cbn [ev_run]; now rewrite E1, E2|]. split; [|split; [|split; [|split]]]; auto.
  - intros b' n. rewrite B2, B1. destruct (Nat.eqb_spec b' b) as [->|N].
    + split; [discriminate | intros [_ C]; contradiction].
    + rewrite (B b' n). cbn [In]. split; [intros [? [?|?]]; [congruence | auto] | intros [? ?]; auto].
  - intros o. rewrite L2, L1. split.
    + intros H. apply andb_true_iff in H. destruct H as [H No]. apply (L _) in H. destruct H as [Hs [Hb|Hb]]; [|auto].
      exfalso. destruct (obj_eqb_spec (b, 0) o) as [|N]; [discriminate|]. apply N. destruct o; cbn in *; congruence.
    + intros [Hs Hb]. apply andb_true_iff. split; [apply (L _); cbn; auto|].
      destruct (obj_eqb_spec (b, 0) o) as [<-|]; [cbn in Hb; contradiction | reflexivity].
  - intros b' Hb. apply Bd. now right.
Qed.

Lemma linv_drain : forall it ls nb, linv ls it nb ->
  exists ls', ev_run ls (fl_drain isz it) = Some ls' /\ linv ls' [] nb.
Proof.
  induction it as [|[b x] r IH]; intros ls nb H.
  - exists ls. split; [reflexivity | exact H].
  - destruct (linv_pop ls b x r nb H) as (l1 & E1 & H1). destruct (IH l1 nb H1) as (l2 & E2 & H2).
    exists l2. split; [|exact H2]. cbn [fl_drain].
    change (EDestroy (b, 0) :: EDealloc b isz :: fl_drain isz r) with ([EDestroy (b, 0); EDealloc b isz] ++ fl_drain isz r).
    now rewrite (ev_run_app_some _ _ _ _ E1).
Qed.

Lemma lstep_log st o ls : lref_pre (fabs (fst st)) o -> linv ls (items (fst st)) (snd st) ->
  exists st' e ls', lstep isz st o = Ok (st', snd (lref_step (fabs (fst st)) o), e) /\ ev_run ls e = Some ls' /\
    fabs (fst st') = fst (lref_step (fabs (fst st)) o) /\ linv ls' (items (fst st')) (snd st').
Proof.
  intros P I. destruct (lstep_refines isz st o P) as (st0 & e0 & Hs & Ha).
  destruct st as [[it] nb]. cbn [fst snd items] in *.
  destruct o as [x| | |]; cbn [lstep] in *.
  - unfold fl_emplace_back in *. cbn [items] in *. inversion Hs; subst.
    destruct (linv_emplace ls it nb x I) as (l1 & E1 & I1).
    do 3 eexists. split; [reflexivity|]. split; [exact E1|]. split; [exact Ha | exact I1].
  - unfold fl_pop_front in *. cbn [items] in *. destruct it as [|[b x] r]; [discriminate|]. cbn [bind] in Hs. inversion Hs; subst.
    destruct (linv_pop ls b x r nb I) as (l1 & E1 & I1).
    do 3 eexists. split; [reflexivity|]. split; [exact E1|]. split; [exact Ha | exact I1].
  - unfold fl_front in *. cbn [items] in *. destruct it as [|[b x] r]; [discriminate|]. cbn [bind] in Hs. inversion Hs; subst.
    do 3 eexists. split; [reflexivity|]. split; [reflexivity|]. split; [exact Ha | exact I].
  - do 3 eexists. split; [exact Hs|]. inversion Hs; subst. split; [reflexivity|]. split; [exact Ha | exact I].
Qed.

Lemma lrun_log : forall ops st ls, lref_ok (fabs (fst st)) ops -> linv ls (items (fst st)) (snd st) ->
  exists st' outs e ls', lrun isz st ops = Ok (st', outs, e) /\ ev_run ls e = Some ls' /\ linv ls' (items (fst st')) (snd st').
Proof.
  induction ops as [|o ops IH]; intros st ls K I.
  - exists st, [], [], ls. split; [reflexivity|]. split; [reflexivity | exact I].
  - destruct K as [P K]. destruct (lstep_log st o ls P I) as (st1 & e1 & l1 & H1 & E1 & A1 & I1).
    cbn [lrun]. rewrite H1. cbn [bind]. rewrite <- A1 in K.
    destruct (IH st1 l1 K I1) as (st2 & outs & e2 & l2 & H2 & E2 & I2). rewrite H2. cbn [bind].
    do 4 eexists. split; [reflexivity|]. split; [rewrite (ev_run_app_some _ _ _ _ E1); exact E2 | exact I2].
Qed.

Theorem list_log_wf : forall ops, lref_ok [] ops ->
  exists st outs e, lrun isz (fl_empty, 1) ops = Ok (st, outs, e) /\ wf_closed (e ++ lfinish isz st) = true.
Proof.
  intros ops K.
  assert (I0 : linv ls0 [] 1).
  { split; [|split; [|split; [|split]]].
    - intros b n. cbn. split; [discriminate | intros [_ []]].
    - intros o. cbn. split; [discriminate | intros [_ []]].
    - constructor.
    - intros b [].
    - lia. }
  destruct (lrun_log ops (fl_empty, 1) ls0 K I0) as (st & outs & e & l1 & H & E & I1).
  destruct (linv_drain _ l1 _ I1) as (l2 & E2 & (B & L & _)).
  exists st, outs, e. split; [exact H|]. unfold lfinish, fl_destruct.
  apply (wf_closed_of_run _ l2); [rewrite (ev_run_app_some _ _ _ _ E); exact E2 | |].
  - destruct (blocks l2) as [|[b n] bl] eqn:Eb; [reflexivity|]. exfalso.
    assert (has_block b l2 = Some n) as Hb by (unfold has_block; rewrite Eb; cbn; now rewrite Nat.eqb_refl).
    apply (B b n) in Hb. destruct Hb as [_ []].
  - destruct (live l2) as [|o lv] eqn:El; [reflexivity|]. exfalso.
    assert (is_live o l2 = true) as Ho by (unfold is_live; rewrite El; cbn; now rewrite obj_eqb_refl).
    apply (L o) in Ho. destruct Ho as [_ []].
Qed.
End FList.
