(* Executable model of frg::bitset<N> (include/frg/bitset.hpp), word level, AS THE CODE IS NOW
   (after the fix commits for D21/D22/D23).  Definitions only; proofs are in BitsetProofs*.v.

   A bitset<N> is its word array: [ws : list N], length = buffer_size = div_roundup(N,64), every
   word < 2^64.  Every buffer[k] access of the source is a [rd]/[wr] here and yields [UB] when k is
   outside the array; this is the only source of UB in this model (plus the size_t wrap of
   [buffer_size - wshift - 1] in >>=, whose first consequence is such an access, see [shr]).
   Loops over indices are folds over the index sequence the C++ loop enumerates, in its order;
   all loops update the list in place exactly as the source does (no fresh copy), so the aliasing
   of reads and writes is the source's.  Shift counts are `pos % 64` or `64 - offset` with
   offset in 1..63, i.e. always < 64.  *)
From Coq Require Import List NArith Arith Bool.
Import ListNotations.
Local Open Scope N_scope.

Inductive res (A : Type) : Type := Ok (a : A) | UB.
Arguments Ok {A} a.
Arguments UB {A}.
Definition bind {A B} (r : res A) (f : A -> res B) : res B :=
  match r with Ok a => f a | UB => UB end.
Notation "x <- a ;; b" := (bind a (fun x => b)) (at level 61, a at next level, right associativity).

Fixpoint foldM {S X} (f : S -> X -> res S) (xs : list X) (s : S) : res S :=
  match xs with
  | [] => Ok s
  | x :: r => bind (f s x) (foldM f r)
  end.

(* ---- uint64_t ---------------------------------------------------------------------------- *)
Definition mask64 : N := 18446744073709551615.            (* 2^64 - 1 *)
Definition trunc64 (x : N) : N := N.land x mask64.
Definition not64 (x : N) : N := N.lxor x mask64.            (* ~x on uint64_t *)
Definition shl64 (x k : N) : N := trunc64 (N.shiftl x k).   (* x << k, k < 64 *)
Definition shr64 (x k : N) : N := N.shiftr x k.             (* x >> k, k < 64 *)
Definition b2n (b : bool) : N := if b then 1 else 0.

(* __builtin_popcountll *)
Fixpoint pop_pos (p : positive) : N :=
  match p with xH => 1 | xO q => pop_pos q | xI q => N.succ (pop_pos q) end.
Definition popcount (w : N) : N := match w with N0 => 0 | Npos p => pop_pos p end.

(* ---- the word array ---------------------------------------------------------------------- *)
Definition nwords (n : N) : nat := N.to_nat ((n + 63) / 64).     (* detail::div_roundup(N, 64) *)

Definition rd (ws : list N) (i : nat) : res N :=
  match nth_error ws i with Some w => Ok w | None => UB end.
Fixpoint wr (ws : list N) (i : nat) (v : N) : res (list N) :=
  match ws, i with
  | [], _ => UB
  | _ :: r, O => Ok (v :: r)
  | w :: r, S j => match wr r j v with Ok r' => Ok (w :: r') | UB => UB end
  end.

Definition widx (pos : N) : nat := N.to_nat (pos / 64).

(* mask_last_bit(): if constexpr (N % 64) buffer[N / 64] &= MASK_LAST_BIT;  MASK_LAST_BIT = (1<<N%64)-1 *)
Definition mask_last_bit (n : N) (ws : list N) : res (list N) :=
  if n mod 64 =? 0 then Ok ws
  else w <- rd ws (widx n) ;; wr ws (widx n) (N.land w (N.ones (n mod 64))).

(* bitset() : for (auto &i : buffer) i = 0; *)
Definition ctor_default (n : N) : list N := repeat 0 (nwords n).
(* bitset(unsigned long long val), after fix D21: zero every word, buffer[0] = val, mask_last_bit() *)
Definition ctor_val (n : N) (v : N) : res (list N) :=
  ws <- wr (repeat 0 (nwords n)) 0 v ;; mask_last_bit n ws.

(* operator&=, |=, ^= : for (i = 0; i < buffer_size; i++) buffer[i] op= rhs.buffer[i]; *)
Definition binop (f : N -> N -> N) (ws rhs : list N) : res (list N) :=
  foldM (fun ws i => a <- rd ws i ;; b <- rd rhs i ;; wr ws i (f a b)) (seq 0 (length ws)) ws.
Definition and_assign := binop N.land.
Definition or_assign := binop N.lor.
Definition xor_assign := binop N.lxor.

(* set() / reset() / flip(): range-for over buffer, then mask_last_bit() (not for reset) *)
Definition set_all (n : N) (ws : list N) : res (list N) := mask_last_bit n (map (fun _ => mask64) ws).
Definition reset_all (ws : list N) : list N := map (fun _ => 0) ws.
Definition flip_all (n : N) (ws : list N) : res (list N) := mask_last_bit n (map not64 ws).

(* operator[](pos) const / test(pos): buffer[pos / 64] & (1ull << pos % 64) *)
Definition test (ws : list N) (pos : N) : res bool :=
  w <- rd ws (widx pos) ;; Ok (negb (N.land w (shl64 1 (pos mod 64)) =? 0)).
(* set(pos, val): buffer[pos/64] = (buffer[pos/64] & ~(1ull << pos%64)) | ((uint64_t)val << pos%64) *)
Definition set_pos (ws : list N) (pos : N) (val : bool) : res (list N) :=
  w <- rd ws (widx pos) ;;
  wr ws (widx pos) (N.lor (N.land w (not64 (shl64 1 (pos mod 64)))) (shl64 (b2n val) (pos mod 64))).
Definition reset_pos (ws : list N) (pos : N) := set_pos ws pos false.
Definition flip_pos (ws : list N) (pos : N) : res (list N) :=
  t <- test ws pos ;; set_pos ws pos (negb t).

(* the proxy: reference{index, s} *)
Definition ref_assign_bool := set_pos.                         (* r = x      : s.set(index, x)        *)
Definition ref_assign_ref (ws : list N) (pos : N) (src : list N) (spos : N) : res (list N) :=
  x <- test src spos ;; set_pos ws pos x.                      (* r = r2     : s.set(index, bool(r2)) *)
Definition ref_bool := test.                                   (* bool(r)    : s.test(index)          *)
Definition ref_not (ws : list N) (pos : N) : res bool :=       (* ~r, after fix D22: !s.test(index)   *)
  t <- test ws pos ;; Ok (negb t).
Definition ref_flip := flip_pos.                               (* r.flip()   : s.flip(index)          *)

(* operator~() const : copy, flip() *)
Definition bnot := flip_all.

(* operator<<=(pos).  After fix D23 the first statement is `if (pos >= N) return reset();`. *)
Definition shl (n : N) (ws : list N) (pos : N) : res (list N) :=
  if n <=? pos then Ok (reset_all ws) else
  let bs := length ws in
  ws1 <- (if pos =? 0 then Ok ws else
    let wshift := widx pos in
    let offset := pos mod 64 in
    ws' <- (if offset =? 0 then
        (* for (i = bs-1; i >= wshift; --i) buffer[i] = buffer[i - wshift];   (wshift >= 1 here) *)
        foldM (fun ws i => a <- rd ws (i - wshift) ;; wr ws i a) (rev (seq wshift (bs - wshift))) ws
      else
        let soffset := 64 - offset in
        (* for (i = bs-1; i > wshift; --i) buffer[i] = (buffer[i-wshift] << offset) | (buffer[i-wshift-1] >> soffset); *)
        ws' <- foldM (fun ws i => a <- rd ws (i - wshift) ;; b <- rd ws (i - wshift - 1) ;;
                                  wr ws i (N.lor (shl64 a offset) (shr64 b soffset)))
                     (rev (seq (S wshift) (bs - 1 - wshift))) ws ;;
        (* buffer[wshift] = buffer[0] << offset; *)
        a <- rd ws' 0 ;; wr ws' wshift (shl64 a offset)) ;;
    (* for (i = buffer + 0; i < buffer + wshift; i++) *i = 0; *)
    foldM (fun ws i => wr ws i 0) (seq 0 wshift) ws') ;;
  mask_last_bit n ws1.

(* operator>>=(pos).  After fix D23 the first statement is `if (pos >= N) return reset();`.
   s = buffer_size - wshift - 1 is size_t arithmetic; when wshift >= buffer_size it wraps to a value
   >= 2^64 - wshift - 1 and the first iteration of either loop reads buffer[wshift] outside the
   array: that is the [UB] below. *)
Definition shr (n : N) (ws : list N) (pos : N) : res (list N) :=
  if n <=? pos then Ok (reset_all ws) else
  let bs := length ws in
  ws1 <- (if pos =? 0 then Ok ws else
    let wshift := widx pos in
    let offset := pos mod 64 in
    if (bs <=? wshift)%nat then UB else
    let s := (bs - wshift - 1)%nat in
    ws' <- (if offset =? 0 then
        (* for (i = 0; i <= s; ++i) buffer[i] = buffer[i + wshift]; *)
        foldM (fun ws i => a <- rd ws (i + wshift) ;; wr ws i a) (seq 0 (S s)) ws
      else
        let off := 64 - offset in
        (* for (i = 0; i < s; ++i) buffer[i] = (buffer[i+wshift] >> offset) | (buffer[i+wshift+1] << off); *)
        ws' <- foldM (fun ws i => a <- rd ws (i + wshift) ;; b <- rd ws (i + wshift + 1) ;;
                                  wr ws i (N.lor (shr64 a offset) (shl64 b off)))
                     (seq 0 s) ws ;;
        (* buffer[s] = buffer[buffer_size - 1] >> offset; *)
        a <- rd ws' (bs - 1) ;; wr ws' s (shr64 a offset)) ;;
    (* for (i = buffer + s + 1; i < buffer + buffer_size; i++) *i = 0; *)
    foldM (fun ws i => wr ws i 0) (seq (S s) (bs - S s)) ws') ;;
  mask_last_bit n ws1.

(* count(): for (i = 0; i < bs-1; i++) n += popcount(buffer[i]); return n + popcount(buffer[bs-1]); *)
Definition count (ws : list N) : res N :=
  let bs := length ws in
  c <- foldM (fun c i => w <- rd ws i ;; Ok (c + popcount w)) (seq 0 (bs - 1)) 0 ;;
  w <- rd ws (bs - 1) ;; Ok (c + popcount w).

(* operator==: for (i < bs-1) if (buffer[i] != rhs.buffer[i]) return false;
               return buffer[bs-1] == rhs.buffer[bs-1]; *)
Fixpoint eq_loop (ws rhs : list N) (is : list nat) : res bool :=
  match is with
  | [] => Ok true
  | i :: r => a <- rd ws i ;; b <- rd rhs i ;; if a =? b then eq_loop ws rhs r else Ok false
  end.
Definition beq (ws rhs : list N) : res bool :=
  let bs := length ws in
  e <- eq_loop ws rhs (seq 0 (bs - 1)) ;;
  if e then a <- rd ws (bs - 1) ;; b <- rd rhs (bs - 1) ;; Ok (a =? b) else Ok false.

(* all(): value &= (buffer[i] == ~0) for i < N/64; if (N % 64) value &= (buffer[N/64] == MASK_LAST_BIT) *)
Definition ball (n : N) (ws : list N) : res bool :=
  v <- foldM (fun v i => w <- rd ws i ;; Ok (v && (w =? mask64))) (seq 0 (widx n)) true ;;
  if n mod 64 =? 0 then Ok v else w <- rd ws (widx n) ;; Ok (v && (w =? N.ones (n mod 64))).
(* any(): value |= buffer[i]; if (N % 64) value |= buffer[N/64] *)
Definition bany (n : N) (ws : list N) : res bool :=
  v <- foldM (fun v i => w <- rd ws i ;; Ok (v || negb (w =? 0))) (seq 0 (widx n)) false ;;
  if n mod 64 =? 0 then Ok v else w <- rd ws (widx n) ;; Ok (v || negb (w =? 0)).
(* none(): value &= !buffer[i]; if (N % 64) value &= !(buffer[N/64] & ((1ull << N%64) - 1)) *)
Definition bnone (n : N) (ws : list N) : res bool :=
  v <- foldM (fun v i => w <- rd ws i ;; Ok (v && (w =? 0))) (seq 0 (widx n)) true ;;
  if n mod 64 =? 0 then Ok v else w <- rd ws (widx n) ;; Ok (v && (N.land w (N.ones (n mod 64)) =? 0)).

(* ---- one op type for scripts and for the "every op" theorems -------------------------------- *)
Inductive bop :=
| BSetAll | BResetAll | BFlipAll
| BSet (pos : N) (v : bool) | BReset (pos : N) | BFlip (pos : N)
| BRefAssign (pos : N) (v : bool) | BRefCopy (pos : N) (src : list N) (spos : N) | BRefFlip (pos : N)
| BAnd (rhs : list N) | BOr (rhs : list N) | BXor (rhs : list N)
| BNot | BShl (p : N) | BShr (p : N).

Definition apply_op (n : N) (ws : list N) (o : bop) : res (list N) :=
  match o with
  | BSetAll => set_all n ws
  | BResetAll => Ok (reset_all ws)
  | BFlipAll => flip_all n ws
  | BSet p v => set_pos ws p v
  | BReset p => reset_pos ws p
  | BFlip p => flip_pos ws p
  | BRefAssign p v => ref_assign_bool ws p v
  | BRefCopy p src sp => ref_assign_ref ws p src sp
  | BRefFlip p => ref_flip ws p
  | BAnd r => and_assign ws r
  | BOr r => or_assign ws r
  | BXor r => xor_assign ws r
  | BNot => bnot n ws
  | BShl p => shl n ws p
  | BShr p => shr n ws p
  end.

Inductive bquery :=
| QTest (pos : N) | QRefBool (pos : N) | QRefNot (pos : N) | QAny | QAll | QNone | QEq (rhs : list N).

Definition query (n : N) (ws : list N) (q : bquery) : res bool :=
  match q with
  | QTest p => test ws p
  | QRefBool p => ref_bool ws p
  | QRefNot p => ref_not ws p
  | QAny => bany n ws
  | QAll => ball n ws
  | QNone => bnone n ws
  | QEq r => beq ws r
  end.
