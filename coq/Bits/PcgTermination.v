(* pcg_basic32: the state transition has full period 2^64 (LcgPeriod.lcg_full_period), some state has
   the output 0xFFFFFFFF, hence the rejection loop of the bounded draw terminates for every generator
   state with an odd increment - in particular for every seed and sequence - and every bound > 0. *)
From Coq Require Import List NArith ZArith Lia Bool.
From FV Require Import Bits.PrngModel Bits.PcgProofs Bits.LcgPeriod.
Local Open Scope N_scope.

(* generator states a program can have: a uint64 state and an odd increment *)
Definition pcg_wf (g : pcg) : Prop := pcg_state g < 2 ^ 64 /\ N.odd (pcg_inc g) = true.

Lemma pcg_next_wf : forall g, pcg_wf g -> pcg_wf (fst (pcg_next g)).
Proof.
  intros g [_ Ho]. rewrite pcg_next_spec. cbn [fst]. split; [|exact Ho]. cbn [pcg_state].
  apply N.mod_lt. discriminate.
Qed.

Lemma pcg_iter_wf : forall n g, pcg_wf g -> pcg_wf (pcg_iter n g).
Proof. induction n as [|n IH]; intros g H; cbn [pcg_iter]; [exact H|]. apply IH. now apply pcg_next_wf. Qed.

Lemma pcg_seed_wf : forall seed seq, pcg_wf (pcg_seed seed seq).
Proof.
  intros seed seq. unfold pcg_seed. apply pcg_next_wf. split.
  - cbn [pcg_state]. rewrite t64_mod. apply N.mod_lt. discriminate.
  - cbn [pcg_inc]. rewrite pcg_next_spec. cbn [fst pcg_inc].
    rewrite <- N.bit0_odd, N.lor_spec. apply orb_true_r.
Qed.

Lemma pcg_iter_inc : forall n g, pcg_inc (pcg_iter n g) = pcg_inc g.
Proof.
  induction n as [|n IH]; intro g; cbn [pcg_iter]; [reflexivity|]. rewrite IH, pcg_next_spec. reflexivity.
Qed.

(* the model's state sequence is the LCG of LcgPeriod with k = 64 *)
Lemma pcg_iter_lcg : forall n g,
  Z.of_N (pcg_state (pcg_iter n g)) =
  lcg_iter (Z.of_N pcg_mult) (Z.of_N (pcg_inc g)) 64 n (Z.of_N (pcg_state g)).
Proof.
  induction n as [|n IH]; intro g; [reflexivity|].
  rewrite pcg_iter_S. cbn [lcg_iter]. rewrite <- IH, pcg_next_spec. cbn [fst pcg_state].
  rewrite pcg_iter_inc. unfold lcg.
  rewrite N2Z.inj_mod, N2Z.inj_add, N2Z.inj_mul. f_equal. ring.
Qed.

(* every 64-bit state is reached from every generator state *)
Theorem pcg_reaches_every_state : forall g y, pcg_wf g -> y < 2 ^ 64 ->
  exists n, pcg_state (pcg_iter n g) = y.
Proof.
  intros g y [Hs Ho] Hy.
  destruct (lcg_full_period (Z.of_N pcg_mult) (Z.of_N (pcg_inc g)) 64) with
    (x := Z.of_N (pcg_state g)) (y := Z.of_N y) as (n & _ & Hn).
  - reflexivity.
  - apply N.odd_spec in Ho. destruct Ho as [m Hm]. rewrite Hm.
    rewrite N2Z.inj_add, N2Z.inj_mul. change (Z.of_N 2) with 2%Z. change (Z.of_N 1) with 1%Z.
    rewrite Z.add_comm, Z.mul_comm, Z.mod_add by lia. reflexivity.
  - change (p2 64) with (Z.of_N (2 ^ 64)). lia.
  - change (p2 64) with (Z.of_N (2 ^ 64)). lia.
  - exists n. apply N2Z.inj. rewrite pcg_iter_lcg. exact Hn.
Qed.

(* a state whose output is the largest uint32: bits 41..58 set (found by inverting the permutation) *)
Definition pcg_top_state : N := 576458553280167936.
Lemma pcg_top_output : pcg_output pcg_top_state = 4294967295 /\ pcg_top_state < 2 ^ 64.
Proof. split; vm_compute; reflexivity. Qed.

Theorem pcg_bounded_terminates : forall g bound, pcg_wf g -> 0 < bound < 2 ^ 32 ->
  exists fuel g' v, pcg_bounded fuel g bound = DOk g' v.
Proof.
  intros g bound Hg Hb. destruct pcg_top_output as [Ho Ht].
  destruct (pcg_reaches_every_state g pcg_top_state Hg Ht) as [n Hn].
  exists (S n). apply (pcg_bounded_terminates_if (S n) g bound n Hb); [lia|].
  unfold pcg_out. rewrite pcg_next_spec. cbn [snd]. rewrite Hn, Ho.
  assert (2 ^ 32 mod bound < bound) by (apply N.mod_lt; lia).
  change (2 ^ 32) with 4294967296 in *. lia.
Qed.

Lemma pcg_bounded_terminates_all : forall seed seq bound, 0 < bound < 2 ^ 32 ->
  (* every seed and sequence *)
  (exists fuel g' v, pcg_bounded fuel (pcg_seed seed seq) bound = DOk g' v /\ v < bound /\ pcg_wf g') /\
  (* and every later state of the generator (after any number of plain or bounded draws) *)
  (forall g, pcg_wf g -> pcg_wf (fst (pcg_next g)) /\
     exists fuel g' v, pcg_bounded fuel g bound = DOk g' v /\ v < bound /\ pcg_wf g').
Proof.
  intros seed seq bound Hb.
  assert (G : forall g, pcg_wf g -> exists fuel g' v, pcg_bounded fuel g bound = DOk g' v /\ v < bound /\ pcg_wf g').
  { intros g Hg. destruct (pcg_bounded_terminates g bound Hg Hb) as (fuel & g' & v & E).
    exists fuel, g', v. split; [exact E|].
    destruct (pcg_bounded_spec fuel g bound g' v Hb E) as (Hv & k & _ & _ & _ & _ & Eg).
    split; [exact Hv|]. rewrite Eg. now apply pcg_iter_wf. }
  split; [apply G, pcg_seed_wf|]. intros g Hg. split; [now apply pcg_next_wf|now apply G].
Qed.
