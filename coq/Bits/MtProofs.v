(* mt19937: the in-place block update (which for kk >= 227 reads words already replaced in the same
   pass) computes the published recurrence x_{k+624} = x_{k+397} xor twist(x_k, x_{k+1}); the seeding
   loop computes the published seeding recurrence; every output is the tempered next x. *)
From Coq Require Import List NArith Arith Bool Lia.
From FV Require Import Bits.PrngModel.
Import ListNotations.
Local Open Scope nat_scope.

(* ---- the published sequences, written without any in-place state -------------------------- *)
Fixpoint seed_x (s : N) (i : nat) : N :=
  match i with O => t32 s | S j => seed_next (seed_x s j) (S j) end.

(* xs s k = [x_0; ...; x_{623+k}] *)
Fixpoint mt_xs (s : N) (k : nat) : list N :=
  match k with
  | O => map (seed_x s) (seq 0 624)
  | S k' => let l := mt_xs s k' in
            l ++ [N.lxor (nth (k' + 397) l 0%N) (twist (nth k' l 0%N) (nth (k' + 1) l 0%N))]
  end.
Definition mt_x (s : N) (i : nat) : N := nth i (mt_xs s (i - 623)) 0%N.

Lemma mt_xs_length : forall s k, length (mt_xs s k) = 624 + k.
Proof.
  induction k as [|k IH]; cbn [mt_xs].
  - now rewrite map_length, seq_length.
  - rewrite app_length, IH. cbn [length]. lia.
Qed.

Lemma mt_xs_prefix : forall s k k' i, i < 624 + k -> k <= k' -> nth i (mt_xs s k') 0%N = nth i (mt_xs s k) 0%N.
Proof.
  intros s k k' i Hi Hk. induction Hk as [|k' Hk IH]; [reflexivity|].
  cbn [mt_xs]. rewrite app_nth1; [exact IH|]. rewrite mt_xs_length. lia.
Qed.

Lemma mt_x_nth : forall s i k, i < 624 + k -> mt_x s i = nth i (mt_xs s k) 0%N.
Proof.
  intros s i k Hi. unfold mt_x.
  destruct (Nat.le_ge_cases (i - 623) k) as [H|H].
  - symmetry. apply mt_xs_prefix; lia.
  - apply mt_xs_prefix; lia.
Qed.

Theorem mt_x_seed : forall s j, j < 624 -> mt_x s j = seed_x s j.
Proof.
  intros s j Hj. rewrite (mt_x_nth s j 0) by lia. cbn [mt_xs].
  rewrite (nth_indep _ 0%N (seed_x s 0)) by (rewrite map_length, seq_length; lia).
  rewrite map_nth, seq_nth by lia. reflexivity.
Qed.

Theorem mt_x_rec : forall s k,
  mt_x s (k + 624) = N.lxor (mt_x s (k + 397)) (twist (mt_x s k) (mt_x s (k + 1))).
Proof.
  intros s k. rewrite (mt_x_nth s (k + 624) (S k)) by lia. cbn [mt_xs].
  rewrite app_nth2 by (rewrite mt_xs_length; lia). rewrite mt_xs_length.
  replace (k + 624 - (624 + k)) with 0 by lia. cbn [nth].
  rewrite <- !(mt_x_nth s _ k) by lia. reflexivity.
Qed.

(* ---- list update ---- *)
Lemma upd_length : forall {A} (l : list A) i v, length (upd l i v) = length l.
Proof. induction l as [|x r IH]; intros [|i] v; cbn [upd length]; auto. Qed.

Lemma nth_upd : forall {A} (l : list A) i v j d, i < length l ->
  nth j (upd l i v) d = if Nat.eqb j i then v else nth j l d.
Proof.
  induction l as [|x r IH]; intros [|i] v [|j] d H; cbn [upd nth length Nat.eqb] in *; try lia; auto.
  apply IH. lia.
Qed.

(* ---- seeding ---- *)
Lemma seed_loop : forall s len a st,
  1 <= a -> a + len <= 624 -> length st = 624 ->
  (forall j, j < a -> nth j st 0%N = seed_x s j) ->
  let st' := fold_left (fun st i => upd st i (seed_next (nth (i - 1) st 0%N) i)) (seq a len) st in
  length st' = 624 /\ forall j, j < a + len -> nth j st' 0%N = seed_x s j.
Proof.
  intros s. induction len as [|len IH]; intros a st Ha Hb L H; cbn [seq fold_left].
  - split; [exact L|]. intros j Hj. apply H. lia.
  - specialize (IH (S a) (upd st a (seed_next (nth (a - 1) st 0%N) a))).
    cbv zeta in IH. destruct IH as (L' & H'); try lia.
    + now rewrite upd_length.
    + intros j Hj. rewrite nth_upd by lia. destruct (Nat.eqb_spec j a) as [->|Hne].
      * rewrite H by lia. destruct a as [|a]; [lia|]. cbn [seed_x]. repeat f_equal. lia.
      * apply H. lia.
    + split; [exact L'|]. intros j Hj. apply H'. lia.
Qed.

Lemma nth_repeat0 : forall k j, nth j (repeat 0%N k) 0%N = 0%N.
Proof. induction k as [|k IH]; intros [|j]; cbn [repeat nth]; auto. Qed.

Theorem mt_seed_spec : forall s,
  mt_ctr (mt_seed s) = 624 /\ length (mt_st (mt_seed s)) = 624 /\
  forall j, j < 624 -> nth j (mt_st (mt_seed s)) 0%N = mt_x s j.
Proof.
  intro s. unfold mt_seed. cbn [mt_ctr mt_st]. split; [reflexivity|].
  pose proof (seed_loop s (mt_n - 1) 1 (upd (repeat 0%N mt_n) 0 (t32 s))) as H. cbv zeta in H.
  destruct H as (L & H); unfold mt_n in *; try lia.
  - now rewrite upd_length, repeat_length.
  - intros j Hj. assert (j = 0) by lia. subst. rewrite nth_upd by (rewrite repeat_length; lia). reflexivity.
  - split; [exact L|]. intros j Hj. rewrite mt_x_seed by lia. apply H. lia.
Qed.

(* ---- regeneration ---- *)
Section Regen.
Variables (s : N) (b : nat).

(* the state while the pass is at index k: words below k belong to block b+1, the others to block b *)
Definition mix (k j : nat) : N := if Nat.ltb j k then mt_x s (624 * (b + 1) + j) else mt_x s (624 * b + j).
Definition stateP (k : nat) (st : list N) : Prop :=
  length st = 624 /\ forall j, j < 624 -> nth j st 0%N = mix k j.

Lemma regen_step_ok : forall k st src nxt,
  stateP k st -> k < 624 -> src < 624 -> nxt < 624 ->
  mix k src = mt_x s (624 * b + k + 397) -> mix k nxt = mt_x s (624 * b + k + 1) ->
  stateP (S k) (regen_step st k src nxt).
Proof.
  intros k st src nxt (L & H) Hk Hs Hn Es En. unfold regen_step. split; [now rewrite upd_length|].
  intros j Hj. rewrite nth_upd by lia. unfold mix.
  destruct (Nat.eqb_spec j k) as [->|Hne].
  - replace (k <? S k) with true by (symmetry; apply Nat.ltb_lt; lia).
    rewrite (H src Hs), (H nxt Hn), (H k Hk), Es, En.
    unfold mix at 1. replace (k <? k) with false by (symmetry; apply Nat.ltb_ge; lia).
    replace (624 * (b + 1) + k) with (624 * b + k + 624) by lia. now rewrite mt_x_rec.
  - rewrite (H j Hj). unfold mix.
    destruct (Nat.ltb_spec j k), (Nat.ltb_spec j (S k)); try reflexivity; lia.
Qed.

Lemma regen_loop1 : forall len a st, a + len <= 227 -> stateP a st ->
  stateP (a + len) (fold_left (fun st kk => regen_step st kk (kk + mt_m) (kk + 1)) (seq a len) st).
Proof.
  induction len as [|len IH]; intros a st Hb H; cbn [seq fold_left].
  - now rewrite Nat.add_0_r.
  - replace (a + S len) with (S a + len) by lia. apply IH; [lia|].
    unfold mt_m. apply regen_step_ok; try lia; try exact H.
    + unfold mix. replace (a + 397 <? a) with false by (symmetry; apply Nat.ltb_ge; lia). f_equal. lia.
    + unfold mix. replace (a + 1 <? a) with false by (symmetry; apply Nat.ltb_ge; lia). f_equal. lia.
Qed.

Lemma regen_loop2 : forall len a st, 227 <= a -> a + len <= 623 -> stateP a st ->
  stateP (a + len) (fold_left (fun st kk => regen_step st kk (kk - (mt_n - mt_m)) (kk + 1)) (seq a len) st).
Proof.
  induction len as [|len IH]; intros a st Ha Hb H; cbn [seq fold_left].
  - now rewrite Nat.add_0_r.
  - replace (a + S len) with (S a + len) by lia. apply IH; [lia|lia|].
    unfold mt_n, mt_m. apply regen_step_ok; try lia; try exact H.
    + unfold mix. replace (a - (624 - 397) <? a) with true by (symmetry; apply Nat.ltb_lt; lia). f_equal. lia.
    + unfold mix. replace (a + 1 <? a) with false by (symmetry; apply Nat.ltb_ge; lia). f_equal. lia.
Qed.

Theorem mt_regen_spec : forall st,
  length st = 624 -> (forall j, j < 624 -> nth j st 0%N = mt_x s (624 * b + j)) ->
  length (mt_regen st) = 624 /\ forall j, j < 624 -> nth j (mt_regen st) 0%N = mt_x s (624 * (b + 1) + j).
Proof.
  intros st L H. unfold mt_regen.
  assert (P0 : stateP 0 st). { split; [exact L|]. intros j Hj. unfold mix. cbn [Nat.ltb Nat.leb]. now apply H. }
  pose proof (regen_loop1 (mt_n - mt_m) 0 st ltac:(unfold mt_n, mt_m; lia) P0) as P1.
  set (st1 := fold_left _ _ st) in *.
  pose proof (regen_loop2 (mt_m - 1) (mt_n - mt_m) st1 ltac:(unfold mt_n, mt_m; lia) ltac:(unfold mt_n, mt_m; lia)) as P2.
  replace (0 + (mt_n - mt_m)) with (mt_n - mt_m) in P1 by lia. specialize (P2 P1).
  set (st2 := fold_left _ _ st1) in *.
  replace (mt_n - mt_m + (mt_m - 1)) with 623 in P2 by (unfold mt_n, mt_m; lia).
  assert (P3 : stateP 624 (regen_step st2 (mt_n - 1) (mt_m - 1) 0)).
  { unfold mt_n, mt_m. replace (624 - 1) with 623 by lia. apply regen_step_ok; try lia; try exact P2.
    - unfold mix. replace (397 - 1 <? 623) with true by (symmetry; apply Nat.ltb_lt; lia). f_equal. lia.
    - unfold mix. replace (0 <? 623) with true by (symmetry; apply Nat.ltb_lt; lia). f_equal. lia. }
  destruct P3 as (L3 & H3). split; [exact L3|]. intros j Hj. rewrite (H3 j Hj). unfold mix.
  replace (j <? 624) with true by (symmetry; apply Nat.ltb_lt; lia). reflexivity.
Qed.
End Regen.

(* ---- outputs ---- *)
(* after t outputs the state holds block b at counter c with 624*b + c = 624 + t *)
Definition mt_inv (s : N) (t : nat) (g : mt) : Prop :=
  length (mt_st g) = 624 /\ exists b, mt_ctr g <= 624 /\ 624 * b + mt_ctr g = 624 + t /\
    forall j, j < 624 -> nth j (mt_st g) 0%N = mt_x s (624 * b + j).

Lemma mt_next_inv : forall s t g, mt_inv s t g ->
  mt_inv s (S t) (fst (mt_next g)) /\ snd (mt_next g) = temper (mt_x s (624 + t)).
Proof.
  intros s t g (L & b & Hc & Hbt & H). unfold mt_next.
  destruct (Nat.leb_spec mt_n (mt_ctr g)) as [Hge|Hlt]; unfold mt_n, mt_inv in *; cbn [fst snd mt_st mt_ctr].
  - destruct (mt_regen_spec s b (mt_st g) L H) as (L' & H'). split.
    + split; [exact L'|]. exists (b + 1). split; [lia|]. split; [lia|exact H'].
    + rewrite H' by lia. f_equal. f_equal. lia.
  - split.
    + split; [exact L|]. exists b. split; [lia|]. split; [lia|exact H].
    + rewrite H by lia. f_equal. f_equal. lia.
Qed.

Lemma mt_outputs_S : forall k g, mt_outputs (S k) g = snd (mt_next g) :: mt_outputs k (fst (mt_next g)).
Proof. intros k g. cbn [mt_outputs]. destruct (mt_next g); reflexivity. Qed.

Lemma mt_outputs_spec : forall s i t g, mt_inv s t g ->
  nth i (mt_outputs (S i) g) 0%N = temper (mt_x s (624 + t + i)).
Proof.
  intros s. induction i as [|i IH]; intros t g Hinv; rewrite mt_outputs_S;
    pose proof (mt_next_inv s t g Hinv) as (Hi & Ho); cbn [nth].
  - rewrite Ho. f_equal. f_equal. lia.
  - rewrite (IH (S t) _ Hi). f_equal. f_equal. lia.
Qed.

Theorem mt_recurrence : forall s i,
  nth i (mt_outputs (S i) (mt_seed s)) 0%N = temper (mt_x s (i + 624)).
Proof.
  intros s i. destruct (mt_seed_spec s) as (C & L & H).
  rewrite (mt_outputs_spec s i 0 (mt_seed s)).
  - f_equal. f_equal. lia.
  - split; [exact L|]. exists 0. rewrite C. split; [lia|]. split; [lia|].
    intros j Hj. rewrite H by lia. f_equal.
Qed.

From FV Require Import Bits.PcgProofs.
Local Open Scope N_scope.
Lemma mt_recurrence_all : forall (s : N) (i : nat),
  nth i (mt_outputs (S i) (mt_seed s)) 0 = temper (mt_x s (i + 624)) /\
  mt_x s (i + 624) = N.lxor (mt_x s (i + 397)) (twist (mt_x s i) (mt_x s (i + 1))) /\
  (forall j, (j < 624)%nat -> mt_x s j = seed_x s j) /\
  seed_x s 0 = s mod 2 ^ 32 /\
  (forall j, seed_x s (S j) =
     (1812433253 * N.lxor (seed_x s j) (seed_x s j / 2 ^ 30) + N.of_nat (S j)) mod 2 ^ 32).
Proof.
  intros s i. split; [exact (mt_recurrence s i)|]. split; [exact (mt_x_rec s i)|].
  split; [exact (mt_x_seed s)|]. split; [exact (t32_mod s)|].
  intro j. cbn [seed_x]. unfold seed_next. rewrite t32_mod, N.shiftr_div_pow2. reflexivity.
Qed.
