(* Executable models of frg::mt19937 and frg::pcg_basic32 (include/frg/random.hpp).
   Definitions only.  All arithmetic is uint32_t / uint64_t, written with explicit reductions. *)
From Coq Require Import List NArith Arith Bool.
Import ListNotations.
Local Open Scope N_scope.

Definition m32 : N := 4294967295.                 (* 2^32 - 1 *)
Definition t32 (x : N) : N := N.land x m32.       (* conversion to uint32_t *)
Definition m64 : N := 18446744073709551615.
Definition t64 (x : N) : N := N.land x m64.       (* conversion to uint64_t *)

Fixpoint upd {A} (l : list A) (i : nat) (v : A) : list A :=
  match l, i with
  | [], _ => []
  | _ :: r, O => v :: r
  | x :: r, S j => x :: upd r j v
  end.

(* ---- mt19937 ------------------------------------------------------------------------------ *)
Definition mt_n : nat := 624.
Definition mt_m : nat := 397.
Definition matrix_a : N := 2567483615.            (* 0x9908b0df *)
Definition msb : N := 2147483648.                 (* 0x80000000 *)
Definition lsbs : N := 2147483647.                (* 0x7fffffff *)
Definition mt_default_seed : N := 5489.           (* mt19937() { seed(5489); } *)
Definition mt_init_mult : N := 1812433253.
Definition mt_init_shift : N := 30.
Definition temper_u : N := 11.
Definition temper_s : N := 7.
Definition temper_b : N := 2636928640.            (* 0x9d2c5680 *)
Definition temper_t : N := 15.
Definition temper_c : N := 4022730752.            (* 0xefc60000 *)
Definition temper_l : N := 18.

Record mt := mk_mt { mt_st : list N; mt_ctr : nat }.

(* _st[_ctr] = (1812433253 * (_st[_ctr-1] ^ (_st[_ctr-1] >> 30)) + _ctr)   in uint32_t *)
Definition seed_next (prev : N) (i : nat) : N :=
  t32 (mt_init_mult * (N.lxor prev (N.shiftr prev mt_init_shift)) + N.of_nat i).

(* seed(s): _st[0] = s; for (_ctr = 1; _ctr < n; _ctr++) _st[_ctr] = ...;  leaves _ctr = n.
   The state before seed() is irrelevant: every word is written before it is read. *)
Definition mt_seed (s : N) : mt :=
  mk_mt (fold_left (fun st i => upd st i (seed_next (nth (i - 1) st 0) i)) (seq 1 (mt_n - 1))
                   (upd (repeat 0 mt_n) 0 (t32 s)))
        mt_n.

(* y = (_st[a] & msb) | (_st[b] & lsbs);  result = _st[c] ^ (y >> 1) ^ mag01[y & 1] *)
Definition mag01 (y : N) : N := if N.land y 1 =? 0 then 0 else matrix_a.
Definition twist (hi lo : N) : N :=
  let y := N.lor (N.land hi msb) (N.land lo lsbs) in
  N.lxor (N.shiftr y 1) (mag01 y).

Definition regen_step (st : list N) (kk src nxt : nat) : list N :=
  upd st kk (N.lxor (nth src st 0) (twist (nth kk st 0) (nth nxt st 0))).

(* the three in-place loops of operator()() *)
Definition mt_regen (st : list N) : list N :=
  let st1 := fold_left (fun st kk => regen_step st kk (kk + mt_m) (kk + 1)) (seq 0 (mt_n - mt_m)) st in
  let st2 := fold_left (fun st kk => regen_step st kk (kk - (mt_n - mt_m)) (kk + 1))
                       (seq (mt_n - mt_m) (mt_m - 1)) st1 in
  regen_step st2 (mt_n - 1) (mt_m - 1) 0.

Definition temper (r0 : N) : N :=
  let r1 := N.lxor r0 (N.shiftr r0 temper_u) in
  let r2 := N.lxor r1 (N.land (t32 (N.shiftl r1 temper_s)) temper_b) in
  let r3 := N.lxor r2 (N.land (t32 (N.shiftl r2 temper_t)) temper_c) in
  N.lxor r3 (N.shiftr r3 temper_l).

Definition mt_next (g : mt) : mt * N :=
  let g1 := if (mt_n <=? mt_ctr g)%nat then mk_mt (mt_regen (mt_st g)) 0 else g in
  (mk_mt (mt_st g1) (S (mt_ctr g1)), temper (nth (mt_ctr g1) (mt_st g1) 0)).

Fixpoint mt_outputs (k : nat) (g : mt) : list N :=
  match k with
  | O => []
  | S k' => let (g', r) := mt_next g in r :: mt_outputs k' g'
  end.

(* ---- pcg_basic32 -------------------------------------------------------------------------- *)
Record pcg := mk_pcg { pcg_state : N; pcg_inc : N }.
Definition pcg_mult : N := 6364136223846793005.
Definition pcg_sh_a : N := 18.
Definition pcg_sh_b : N := 27.
Definition pcg_sh_rot : N := 59.
Definition pcg_rot_mask : N := 31.

(* (xorshifted >> rot) | (xorshifted << ((-rot) & 31))   in uint32_t *)
Definition rotr_expr (x rot : N) : N :=
  N.lor (N.shiftr x rot) (t32 (N.shiftl x (N.land (t32 (4294967296 - rot)) pcg_rot_mask))).

Definition pcg_output (old : N) : N :=
  let xorshifted := t32 (N.shiftr (N.lxor (N.shiftr old pcg_sh_a) old) pcg_sh_b) in
  let rot := t32 (N.shiftr old pcg_sh_rot) in
  rotr_expr xorshifted rot.

Definition pcg_next (g : pcg) : pcg * N :=
  let old := pcg_state g in
  (mk_pcg (t64 (old * pcg_mult + pcg_inc g)) (pcg_inc g), pcg_output old).

(* seed(seed, seq): state_ = 0; inc_ = (seq << 1) | 1; operator()(); state_ += seed; operator()(); *)
Definition pcg_seed (seed seq : N) : pcg :=
  let g0 := mk_pcg 0 (N.lor (t64 (N.shiftl seq 1)) 1) in
  let g1 := fst (pcg_next g0) in
  let g2 := mk_pcg (t64 (pcg_state g1 + seed)) (pcg_inc g1) in
  fst (pcg_next g2).

Inductive draw := DOk (g : pcg) (v : N) | DDivZero | DOutOfFuel.

(* threshold = -bound % bound  in uint32_t *)
Definition pcg_threshold (bound : N) : N := t32 (4294967296 - bound) mod bound.

Fixpoint pcg_loop (fuel : nat) (g : pcg) (bound threshold : N) : draw :=
  match fuel with
  | O => DOutOfFuel
  | S f => let (g', r) := pcg_next g in
           if threshold <=? r then DOk g' (r mod bound) else pcg_loop f g' bound threshold
  end.

(* operator()(uint32_t bound); bound = 0 is a division by zero *)
Definition pcg_bounded (fuel : nat) (g : pcg) (bound : N) : draw :=
  if bound =? 0 then DDivZero else pcg_loop fuel g bound (pcg_threshold bound).
