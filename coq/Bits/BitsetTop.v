(* The "every op" statements: refinement of the std::bitset reading, invariant over all reachable
   bitsets, and absence of out-of-array accesses. *)
From Coq Require Import List NArith Arith Bool Lia ZArith ZifyBool ZifyNat ZifyN.
From FV Require Import Bits.BitsetModel Bits.BitsetBase Bits.BitsetProofs Bits.BitsetShift.
Import ListNotations.
Local Open Scope N_scope.

(* preconditions: positions below N (std::bitset throws otherwise); other operands are bitsets *)
Definition valid_op (n : N) (o : bop) : Prop :=
  match o with
  | BSet p _ | BReset p | BFlip p | BRefAssign p _ | BRefFlip p => p < n
  | BRefCopy p src sp => p < n /\ sp < n /\ wf n src
  | BAnd r | BOr r | BXor r => wf n r
  | BSetAll | BResetAll | BFlipAll | BNot | BShl _ | BShr _ => True
  end.

(* what std::bitset<N> defines for each operation, on bit functions *)
Definition spec_op (n : N) (o : bop) (f : N -> bool) : N -> bool :=
  match o with
  | BSetAll => fun _ => true
  | BResetAll => fun _ => false
  | BFlipAll | BNot => fun i => negb (f i)
  | BSet p v | BRefAssign p v => fun i => if i =? p then v else f i
  | BReset p => fun i => if i =? p then false else f i
  | BFlip p | BRefFlip p => fun i => if i =? p then negb (f i) else f i
  | BRefCopy p src sp => fun i => if i =? p then bit src sp else f i
  | BAnd r => fun i => f i && bit r i
  | BOr r => fun i => f i || bit r i
  | BXor r => fun i => xorb (f i) (bit r i)
  | BShl p => fun i => (p <=? i) && f (i - p)
  | BShr p => fun i => (i + p <? n) && f (i + p)
  end.

Theorem apply_op_spec : forall n ws o, 1 <= n -> wf n ws -> valid_op n o ->
  exists ws', apply_op n ws o = Ok ws' /\ wf n ws' /\ forall i, i < n -> bit ws' i = spec_op n o (bit ws) i.
Proof.
  intros n ws o Hn Hwf Hv. destruct o; cbn [apply_op spec_op valid_op] in *.
  - destruct (set_all_spec n ws Hn Hwf) as (ws' & E & W & B). eauto.
  - destruct (reset_all_spec n ws Hn Hwf) as (W & B). exists (reset_all ws). auto.
  - destruct (flip_all_spec n ws Hn Hwf) as (ws' & E & W & B). eauto.
  - destruct (set_pos_spec n ws pos v Hwf Hv) as (ws' & E & W & B). eauto.
  - destruct (set_pos_spec n ws pos false Hwf Hv) as (ws' & E & W & B). exists ws'. auto.
  - destruct (flip_pos_spec n ws pos Hwf Hv) as (ws' & E & W & B). eauto.
  - destruct (set_pos_spec n ws pos v Hwf Hv) as (ws' & E & W & B). eauto.
  - destruct Hv as (Hp & Hsp & Hsrc). unfold ref_assign_ref.
    rewrite (test_spec n src spos Hsrc Hsp). cbn [bind].
    destruct (set_pos_spec n ws pos (bit src spos) Hwf Hp) as (ws' & E & W & B). eauto.
  - destruct (flip_pos_spec n ws pos Hwf Hv) as (ws' & E & W & B). eauto.
  - destruct (binop_spec N.land andb n ws rhs N.land_spec eq_refl Hn Hwf Hv) as (ws' & E & W & B). eauto.
  - destruct (binop_spec N.lor orb n ws rhs N.lor_spec eq_refl Hn Hwf Hv) as (ws' & E & W & B). eauto.
  - destruct (binop_spec N.lxor xorb n ws rhs N.lxor_spec eq_refl Hn Hwf Hv) as (ws' & E & W & B). eauto.
  - destruct (flip_all_spec n ws Hn Hwf) as (ws' & E & W & B). eauto.
  - destruct (shl_spec n ws p Hn Hwf) as (ws' & E & W & B). eauto.
  - destruct (shr_spec n ws p Hn Hwf) as (ws' & E & W & B). eauto.
Qed.

(* every bitset a program can build (within the preconditions) *)
Inductive reachable (n : N) : list N -> Prop :=
| R_default : reachable n (ctor_default n)
| R_val : forall v ws, v < 2 ^ 64 -> ctor_val n v = Ok ws -> reachable n ws
| R_op : forall ws o ws', reachable n ws -> valid_op_r n o -> apply_op n ws o = Ok ws' -> reachable n ws'
with valid_op_r (n : N) : bop -> Prop :=
| V_pos : forall o, match o with
                    | BSet p _ | BReset p | BFlip p | BRefAssign p _ | BRefFlip p => p < n
                    | BSetAll | BResetAll | BFlipAll | BNot | BShl _ | BShr _ => True
                    | _ => False end -> valid_op_r n o
| V_copy : forall p src sp, p < n -> sp < n -> reachable n src -> valid_op_r n (BRefCopy p src sp)
| V_and : forall r, reachable n r -> valid_op_r n (BAnd r)
| V_or : forall r, reachable n r -> valid_op_r n (BOr r)
| V_xor : forall r, reachable n r -> valid_op_r n (BXor r).

Scheme reachable_ind2 := Induction for reachable Sort Prop
  with valid_op_r_ind2 := Induction for valid_op_r Sort Prop.

Theorem reachable_wf : forall n, 1 <= n -> forall ws, reachable n ws -> wf n ws.
Proof.
  intros n Hn.
  apply (reachable_ind2 n (fun ws _ => wf n ws) (fun o _ => valid_op n o)).
  - apply (ctor_default_spec n Hn).
  - intros v ws Hv E. destruct (ctor_val_spec n v Hn Hv) as (ws' & E' & W & _). congruence.
  - intros ws o ws' _ W _ V E. destruct (apply_op_spec n ws o Hn W V) as (ws1 & E1 & W1 & _). congruence.
  - intros o H. destruct o; cbn [valid_op]; try exact H; try contradiction.
  - intros p src sp Hp Hsp _ W. cbn [valid_op]. auto.
  - intros r _ W. exact W.
  - intros r _ W. exact W.
  - intros r _ W. exact W.
Qed.

Lemma reachable_valid : forall n, 1 <= n -> forall o, valid_op_r n o -> valid_op n o.
Proof.
  intros n Hn o H. destruct H as [o H|p src sp Hp Hsp R|r R|r R|r R]; cbn [valid_op].
  - destruct o; try exact H; try contradiction.
  - split; [exact Hp|]. split; [exact Hsp|]. now apply reachable_wf.
  - now apply reachable_wf.
  - now apply reachable_wf.
  - now apply reachable_wf.
Qed.

(* no word index outside the array, for ANY shift amount *)
Theorem shifts_in_bounds : forall n ws p, 1 <= n -> wf n ws -> shl n ws p <> UB /\ shr n ws p <> UB.
Proof.
  intros n ws p Hn Hwf.
  destruct (shl_spec n ws p Hn Hwf) as (w1 & E1 & _). destruct (shr_spec n ws p Hn Hwf) as (w2 & E2 & _).
  rewrite E1, E2. split; discriminate.
Qed.

(* ---- queries ---- *)
From FV Require Import Bits.BitsetQueries Bits.BitsetCount.

Definition valid_query (n : N) (q : bquery) : Prop :=
  match q with
  | QTest p | QRefBool p | QRefNot p => p < n
  | QEq r => wf n r
  | QAny | QAll | QNone => True
  end.

Definition spec_query (n : N) (q : bquery) (f : N -> bool) : bool :=
  match q with
  | QTest p | QRefBool p => f p
  | QRefNot p => negb (f p)
  | QAny => existsb f (indices n)
  | QAll => forallb f (indices n)
  | QNone => negb (existsb f (indices n))
  | QEq r => forallb (fun i => Bool.eqb (f i) (bit r i)) (indices n)
  end.

Theorem query_spec : forall n ws q, 1 <= n -> wf n ws -> valid_query n q ->
  query n ws q = Ok (spec_query n q (bit ws)).
Proof.
  intros n ws q Hn Hwf Hv. destruct q; cbn [query spec_query valid_query] in *.
  - now apply (test_spec n).
  - now apply (test_spec n).
  - unfold ref_not. now rewrite (test_spec n) by assumption.
  - now apply bany_spec.
  - now apply ball_spec.
  - now apply bnone_spec.
  - now apply beq_spec.
Qed.

Local Open Scope N_scope.
Lemma bitset_refines_bits_all : forall n : N, 1 <= n ->
  (* constructors *)
  (wf n (ctor_default n) /\ forall i, bit (ctor_default n) i = false) /\
  (forall v, v < 2 ^ 64 ->
     exists ws, ctor_val n v = Ok ws /\ wf n ws /\ forall i, i < n -> bit ws i = N.testbit v i) /\
  (* every mutating operation, incl. the proxy reference and shifts by ANY amount *)
  (forall ws o, wf n ws -> valid_op n o ->
     exists ws', apply_op n ws o = Ok ws' /\ forall i, i < n -> bit ws' i = spec_op n o (bit ws) i) /\
  (* shifts by p >= N give the empty set *)
  (forall ws p, wf n ws -> n <= p ->
     exists wl wr, apply_op n ws (BShl p) = Ok wl /\ apply_op n ws (BShr p) = Ok wr /\
                   forall i, i < n -> bit wl i = false /\ bit wr i = false) /\
  (* test, bool(ref), ~ref, any, all, none, == *)
  (forall ws q, wf n ws -> valid_query n q -> query n ws q = Ok (spec_query n q (bit ws))) /\
  (* count = number of set bits below N *)
  (forall ws, wf n ws -> count ws = Ok (count_spec n (bit ws))).
Proof.
  intros n Hn. split; [exact (ctor_default_spec n Hn)|]. split; [intros v Hv; exact (ctor_val_spec n v Hn Hv)|].
  split.
  { intros ws o Hwf Hv. destruct (apply_op_spec n ws o Hn Hwf Hv) as (ws' & E & _ & B). eauto. }
  split.
  { intros ws p Hwf Hp.
    destruct (apply_op_spec n ws (BShl p) Hn Hwf I) as (wl & El & _ & Bl).
    destruct (apply_op_spec n ws (BShr p) Hn Hwf I) as (wr & Er & _ & Br).
    exists wl, wr. split; [exact El|]. split; [exact Er|]. intros i Hi. rewrite Bl, Br by exact Hi.
    cbn [spec_op]. destruct (N.leb_spec p i); [exfalso; eapply N.lt_irrefl, N.lt_le_trans, N.le_trans; eauto|].
    destruct (N.ltb_spec (i + p) n) as [H1|H1]; [|split; reflexivity].
    exfalso. apply (N.lt_irrefl n). eapply N.le_lt_trans; [exact Hp|]. eapply N.le_lt_trans; [|exact H1].
    rewrite N.add_comm. apply N.le_add_r. }
  split; [intros ws q Hwf Hv; exact (query_spec n ws q Hn Hwf Hv)|].
  intros ws Hwf. exact (count_spec_ok n ws Hn Hwf).
Qed.
