(* operator<<= and operator>>= : the in-place word loops compute the bit shift, keep the padding zero
   and never index outside the word array, for every shift amount. *)
From Coq Require Import List NArith Arith Bool Lia ZArith ZifyBool ZifyNat ZifyN.
From FV Require Import Bits.BitsetModel Bits.BitsetBase Bits.BitsetProofs.
Import ListNotations.
Local Open Scope N_scope.
Ltac Zify.zify_post_hook ::= Z.div_mod_to_equations.

(* zeroing loop *)
Lemma zero_loop : forall is ws, (forall i, In i is -> (i < length ws)%nat) ->
  exists ws', foldM (fun ws i => wr ws i 0) is ws = Ok ws' /\ length ws' = length ws /\
    (forall p, In p is -> nth p ws' 0 = 0) /\ (forall p, ~ In p is -> nth p ws' 0 = nth p ws 0).
Proof.
  intros is ws H.
  destruct (foldM_inplace (fun _ _ => Ok 0) (fun _ => 0) is ws H) as (ws' & E & R).
  - reflexivity.
  - exists ws'. split; [|exact R]. rewrite <- E. apply foldM_ext. reflexivity.
Qed.

Lemma in_rev_seq : forall j a len, In j (rev (seq a len)) <-> (a <= j < a + len)%nat.
Proof. intros. rewrite <- in_rev. apply in_seq. Qed.

Section Shift.
Variables (n : N) (ws : list N) (p : N).
Hypothesis Hn : 1 <= n.
Hypothesis Hwf : wf n ws.
Hypothesis Hpn : p < n.
Hypothesis Hp0 : p <> 0.

Let bs := length ws.
Let wshift := widx p.
Let offset := p mod 64.

Lemma shift_facts : bs = nwords n /\ (wshift < bs)%nat /\ offset < 64 /\
  p = 64 * N.of_nat wshift + offset /\ words_ok ws.
Proof.
  pose proof (wf_words_ok _ _ Hwf) as O. destruct Hwf as (L & _ & _).
  unfold bs, wshift, offset, widx. rewrite L. unfold nwords. repeat split; try lia. exact O.
Qed.

(* ---- the loops of <<= , before mask_last_bit ---- *)
Definition shl_body : res (list N) :=
  ws' <- (if offset =? 0 then
      foldM (fun ws i => a <- rd ws (i - wshift) ;; wr ws i a) (rev (seq wshift (bs - wshift))) ws
    else
      let soffset := 64 - offset in
      ws' <- foldM (fun ws i => a <- rd ws (i - wshift) ;; b <- rd ws (i - wshift - 1) ;;
                                wr ws i (N.lor (shl64 a offset) (shr64 b soffset)))
                   (rev (seq (S wshift) (bs - 1 - wshift))) ws ;;
      a <- rd ws' 0 ;; wr ws' wshift (shl64 a offset)) ;;
  foldM (fun ws i => wr ws i 0) (seq 0 wshift) ws'.

Lemma shl_body_spec : exists ws1, shl_body = Ok ws1 /\ length ws1 = bs /\
  forall j b, wbit ws1 j b =
    (b <? 64) && (j <? bs)%nat && (p <=? 64 * N.of_nat j + b) && bit ws (64 * N.of_nat j + b - p).
Proof.
  destruct shift_facts as (Hbs & Hws & Hoff & Hp & O). unfold shl_body.
  destruct (N.eqb_spec offset 0) as [Hz|Hz].
  - (* whole words *)
    assert (Hw1 : (1 <= wshift)%nat) by lia.
    destruct (foldM_inplace (fun ws i => rd ws (i - wshift)) (fun j => nth (j - wshift) ws 0)
                (rev (seq wshift (bs - wshift))) ws) as (wa & Ea & La & Ina & Outa).
    + intros i Hi. apply in_rev_seq in Hi. fold bs. lia.
    + intros pre i post ws1 Es L1 A. apply rev_seq_split_inv in Es. destruct Es as (Hi & Hpre).
      rewrite rd_ok by (fold bs in L1; lia). rewrite A; [reflexivity|].
      intro Hc. apply Hpre in Hc. lia.
    + rewrite Ea. cbn [bind].
      destruct (zero_loop (seq 0 wshift) wa) as (wz & Ez & Lz & Inz & Outz).
      { intros i Hi. apply in_seq in Hi. fold bs in La. lia. }
      exists wz. split; [exact Ez|]. split; [fold bs in La; lia|].
      intros j b. unfold wbit.
      destruct (Nat.ltb_spec j bs) as [Hj|Hj].
      2:{ rewrite nth_overflow by (fold bs in La; lia). rewrite N.bits_0. now rewrite andb_false_r. }
      destruct (N.ltb_spec b 64) as [Hb|Hb].
      2:{ cbn [andb]. destruct (Nat.lt_ge_cases j wshift) as [Hjw|Hjw].
          - rewrite Inz by (apply in_seq; lia). apply N.bits_0.
          - rewrite Outz by (rewrite in_seq; lia). rewrite Ina by (apply in_rev_seq; lia). now apply O. }
      cbn [andb].
      destruct (Nat.lt_ge_cases j wshift) as [Hjw|Hjw].
      * rewrite Inz by (apply in_seq; lia). rewrite N.bits_0.
        replace (p <=? 64 * N.of_nat j + b) with false by lia. reflexivity.
      * rewrite Outz by (rewrite in_seq; lia). rewrite Ina by (apply in_rev_seq; lia).
        replace (p <=? 64 * N.of_nat j + b) with true by lia. cbn [andb].
        unfold bit, wbit.
        replace (N.to_nat ((64 * N.of_nat j + b - p) / 64)) with (j - wshift)%nat by lia.
        replace ((64 * N.of_nat j + b - p) mod 64) with b by lia. reflexivity.
  - (* general offset *)
    set (soffset := 64 - offset).
    rewrite (foldM_ext _ (fun ws i => v <- (a <- rd ws (i - wshift) ;; b <- rd ws (i - wshift - 1) ;;
                                         Ok (N.lor (shl64 a offset) (shr64 b soffset))) ;; wr ws i v)).
    2:{ intros s x. destruct (rd s (x - wshift)); cbn [bind]; [|reflexivity].
        destruct (rd s (x - wshift - 1)); reflexivity. }
    destruct (foldM_inplace (fun ws i => a <- rd ws (i - wshift) ;; b <- rd ws (i - wshift - 1) ;;
                                         Ok (N.lor (shl64 a offset) (shr64 b soffset)))
                (fun j => N.lor (shl64 (nth (j - wshift) ws 0) offset) (shr64 (nth (j - wshift - 1) ws 0) soffset))
                (rev (seq (S wshift) (bs - 1 - wshift))) ws) as (wa & Ea & La & Ina & Outa).
    + intros i Hi. apply in_rev_seq in Hi. fold bs. lia.
    + intros pre i post ws1 Es L1 A. apply rev_seq_split_inv in Es. destruct Es as (Hi & Hpre).
      fold bs in L1.
      rewrite rd_ok by lia. cbn [bind]. rewrite rd_ok by lia. cbn [bind].
      rewrite !A; [reflexivity| |]; intro Hc; apply Hpre in Hc; lia.
    + rewrite Ea. cbn [bind]. fold bs in La.
      rewrite rd_ok by lia. cbn [bind]. rewrite wr_ok by lia. cbn [bind].
      rewrite (Outa 0%nat) by (rewrite in_rev_seq; lia).
      set (wb := upd wa wshift (shl64 (nth 0 ws 0) offset)).
      destruct (zero_loop (seq 0 wshift) wb) as (wz & Ez & Lz & Inz & Outz).
      { intros i Hi. apply in_seq in Hi. unfold wb. rewrite upd_length. lia. }
      exists wz. split; [exact Ez|].
      assert (Lb : length wb = bs) by (unfold wb; rewrite upd_length; lia).
      split; [lia|].
      intros j b. unfold wbit.
      destruct (Nat.ltb_spec j bs) as [Hj|Hj].
      2:{ rewrite nth_overflow by lia. rewrite N.bits_0. now rewrite andb_false_r. }
      destruct (Nat.lt_ge_cases j wshift) as [Hjw|Hjw].
      { rewrite Inz by (apply in_seq; lia). rewrite N.bits_0.
        destruct (N.ltb_spec b 64) as [Hb|Hb]; [|reflexivity].
        replace (p <=? 64 * N.of_nat j + b) with false by lia.
        now rewrite andb_false_r. }
      rewrite Outz by (rewrite in_seq; lia). unfold wb. rewrite nth_upd by lia.
      destruct (Nat.eqb_spec j wshift) as [Ej|Ej].
      { (* the word that receives buffer[0] << offset *)
        rewrite shl64_bit.
        destruct (N.ltb_spec b 64) as [Hb|Hb]; [|reflexivity]. cbn [andb].
        destruct (N.leb_spec offset b) as [Hob|Hob].
        - replace (p <=? 64 * N.of_nat j + b) with true by lia. cbn [andb].
          unfold bit, wbit.
          replace (N.to_nat ((64 * N.of_nat j + b - p) / 64)) with 0%nat by lia.
          replace ((64 * N.of_nat j + b - p) mod 64) with (b - offset) by lia. reflexivity.
        - replace (p <=? 64 * N.of_nat j + b) with false by lia. reflexivity. }
      rewrite Ina by (apply in_rev_seq; lia).
      rewrite N.lor_spec, shl64_bit, shr64_bit.
      destruct (N.ltb_spec b 64) as [Hb|Hb].
      2:{ cbn [andb orb]. apply O. unfold soffset. lia. }
      cbn [andb].
      replace (p <=? 64 * N.of_nat j + b) with true by lia. cbn [andb].
      unfold bit, wbit.
      destruct (N.leb_spec offset b) as [Hob|Hob].
      * replace (N.to_nat ((64 * N.of_nat j + b - p) / 64)) with (j - wshift)%nat by lia.
        replace ((64 * N.of_nat j + b - p) mod 64) with (b - offset) by lia.
        rewrite (O (j - wshift - 1)%nat (b + soffset)) by (unfold soffset; lia).
        cbn [andb]. now rewrite orb_false_r.
      * replace (N.to_nat ((64 * N.of_nat j + b - p) / 64)) with (j - wshift - 1)%nat by lia.
        replace ((64 * N.of_nat j + b - p) mod 64) with (b + soffset) by (unfold soffset; lia).
        reflexivity.
Qed.

(* ---- the loops of >>= , before mask_last_bit ---- *)
Definition shr_body : res (list N) :=
  if (bs <=? wshift)%nat then UB else
  let s := (bs - wshift - 1)%nat in
  ws' <- (if offset =? 0 then
      foldM (fun ws i => a <- rd ws (i + wshift) ;; wr ws i a) (seq 0 (S s)) ws
    else
      let off := 64 - offset in
      ws' <- foldM (fun ws i => a <- rd ws (i + wshift) ;; b <- rd ws (i + wshift + 1) ;;
                                wr ws i (N.lor (shr64 a offset) (shl64 b off)))
                   (seq 0 s) ws ;;
      a <- rd ws' (bs - 1) ;; wr ws' s (shr64 a offset)) ;;
  foldM (fun ws i => wr ws i 0) (seq (S s) (bs - S s)) ws'.

Lemma shr_body_spec : exists ws1, shr_body = Ok ws1 /\ length ws1 = bs /\
  forall j b, wbit ws1 j b = (b <? 64) && (j <? bs)%nat && bit ws (64 * N.of_nat j + b + p).
Proof.
  destruct shift_facts as (Hbs & Hws & Hoff & Hp & O). unfold shr_body.
  replace (bs <=? wshift)%nat with false by lia.
  set (s := (bs - wshift - 1)%nat).
  assert (Hbeyond : forall i, 64 * N.of_nat bs <= i -> bit ws i = false).
  { intros i Hi. apply bit_beyond. fold bs. exact Hi. }
  destruct (N.eqb_spec offset 0) as [Hz|Hz].
  - assert (Hw1 : (1 <= wshift)%nat) by lia.
    destruct (foldM_inplace (fun ws i => rd ws (i + wshift)) (fun j => nth (j + wshift) ws 0)
                (seq 0 (S s)) ws) as (wa & Ea & La & Ina & Outa).
    + intros i Hi. apply in_seq in Hi. fold bs. lia.
    + intros pre i post ws1 Es L1 A. apply seq_split_inv in Es. destruct Es as (Hi & Hl & Hpre).
      fold bs in L1. rewrite rd_ok by lia. rewrite A; [reflexivity|].
      intro Hc. apply Hpre in Hc. lia.
    + rewrite Ea. cbn [bind]. fold bs in La.
      destruct (zero_loop (seq (S s) (bs - S s)) wa) as (wz & Ez & Lz & Inz & Outz).
      { intros i Hi. apply in_seq in Hi. lia. }
      exists wz. split; [exact Ez|]. split; [lia|].
      intros j b. unfold wbit.
      destruct (Nat.ltb_spec j bs) as [Hj|Hj].
      2:{ rewrite nth_overflow by lia. rewrite N.bits_0. now rewrite andb_false_r. }
      destruct (Nat.lt_ge_cases s j) as [Hjs|Hjs].
      { rewrite Inz by (apply in_seq; lia). rewrite N.bits_0.
        rewrite Hbeyond by lia. now rewrite andb_false_r. }
      rewrite Outz by (rewrite in_seq; lia). rewrite Ina by (apply in_seq; lia).
      destruct (N.ltb_spec b 64) as [Hb|Hb]; [|now apply O]. cbn [andb].
      unfold bit, wbit.
      replace (N.to_nat ((64 * N.of_nat j + b + p) / 64)) with (j + wshift)%nat by lia.
      replace ((64 * N.of_nat j + b + p) mod 64) with b by lia. reflexivity.
  - set (off := 64 - offset).
    rewrite (foldM_ext _ (fun ws i => v <- (a <- rd ws (i + wshift) ;; b <- rd ws (i + wshift + 1) ;;
                                         Ok (N.lor (shr64 a offset) (shl64 b off))) ;; wr ws i v)).
    2:{ intros s0 x. destruct (rd s0 (x + wshift)); cbn [bind]; [|reflexivity].
        destruct (rd s0 (x + wshift + 1)); reflexivity. }
    destruct (foldM_inplace (fun ws i => a <- rd ws (i + wshift) ;; b <- rd ws (i + wshift + 1) ;;
                                         Ok (N.lor (shr64 a offset) (shl64 b off)))
                (fun j => N.lor (shr64 (nth (j + wshift) ws 0) offset) (shl64 (nth (j + wshift + 1) ws 0) off))
                (seq 0 s) ws) as (wa & Ea & La & Ina & Outa).
    + intros i Hi. apply in_seq in Hi. fold bs. lia.
    + intros pre i post ws1 Es L1 A. apply seq_split_inv in Es. destruct Es as (Hi & Hl & Hpre).
      fold bs in L1.
      rewrite rd_ok by lia. cbn [bind]. rewrite rd_ok by lia. cbn [bind].
      rewrite !A; [reflexivity| |]; intro Hc; apply Hpre in Hc; lia.
    + rewrite Ea. cbn [bind]. fold bs in La.
      rewrite rd_ok by lia. cbn [bind]. rewrite wr_ok by lia. cbn [bind].
      rewrite (Outa (bs - 1)%nat) by (rewrite in_seq; lia).
      set (wb := upd wa s (shr64 (nth (bs - 1) ws 0) offset)).
      assert (Lb : length wb = bs) by (unfold wb; rewrite upd_length; lia).
      destruct (zero_loop (seq (S s) (bs - S s)) wb) as (wz & Ez & Lz & Inz & Outz).
      { intros i Hi. apply in_seq in Hi. lia. }
      exists wz. split; [exact Ez|]. split; [lia|].
      intros j b. unfold wbit.
      destruct (Nat.ltb_spec j bs) as [Hj|Hj].
      2:{ rewrite nth_overflow by lia. rewrite N.bits_0. now rewrite andb_false_r. }
      destruct (Nat.lt_ge_cases s j) as [Hjs|Hjs].
      { rewrite Inz by (apply in_seq; lia). rewrite N.bits_0.
        rewrite Hbeyond by lia. now rewrite andb_false_r. }
      rewrite Outz by (rewrite in_seq; lia). unfold wb. rewrite nth_upd by lia.
      destruct (Nat.eqb_spec j s) as [Ej|Ej].
      { (* the word that receives buffer[bs-1] >> offset *)
        rewrite shr64_bit.
        destruct (N.ltb_spec b 64) as [Hb|Hb]; [|apply O; lia]. cbn [andb].
        destruct (N.ltb_spec (b + offset) 64) as [Hbo|Hbo].
        - unfold bit, wbit.
          replace (N.to_nat ((64 * N.of_nat j + b + p) / 64)) with (bs - 1)%nat by lia.
          replace ((64 * N.of_nat j + b + p) mod 64) with (b + offset) by lia. reflexivity.
        - rewrite (O _ _ Hbo). symmetry. apply Hbeyond. lia. }
      rewrite Ina by (apply in_seq; lia).
      rewrite N.lor_spec, shl64_bit, shr64_bit.
      destruct (N.ltb_spec b 64) as [Hb|Hb].
      2:{ cbn [andb orb]. rewrite orb_false_r. apply O. lia. }
      cbn [andb]. unfold bit, wbit.
      destruct (N.ltb_spec (b + offset) 64) as [Hbo|Hbo].
      * replace (N.to_nat ((64 * N.of_nat j + b + p) / 64)) with (j + wshift)%nat by lia.
        replace ((64 * N.of_nat j + b + p) mod 64) with (b + offset) by lia.
        replace (off <=? b) with false by (unfold off; lia). cbn [andb]. now rewrite orb_false_r.
      * replace (N.to_nat ((64 * N.of_nat j + b + p) / 64)) with (j + wshift + 1)%nat by lia.
        replace ((64 * N.of_nat j + b + p) mod 64) with (b - off) by (unfold off; lia).
        rewrite (O _ _ Hbo). replace (off <=? b) with true by (unfold off; lia). reflexivity.
Qed.
End Shift.

(* ---- the complete operators ------------------------------------------------------------------ *)
Lemma shl_unfold : forall n ws p, p < n -> p <> 0 ->
  shl n ws p = (ws1 <- shl_body ws p ;; mask_last_bit n ws1).
Proof.
  intros n ws p H H0. unfold shl, shl_body.
  replace (n <=? p) with false by lia. replace (p =? 0) with false by lia. reflexivity.
Qed.

Lemma shr_unfold : forall n ws p, p < n -> p <> 0 ->
  shr n ws p = (ws1 <- shr_body ws p ;; mask_last_bit n ws1).
Proof.
  intros n ws p H H0. unfold shr, shr_body.
  replace (n <=? p) with false by lia. replace (p =? 0) with false by lia. reflexivity.
Qed.

Lemma bit_split : forall ws i, bit ws i = wbit ws (N.to_nat (i / 64)) (i mod 64).
Proof. reflexivity. Qed.

Theorem shl_spec : forall n ws p, 1 <= n -> wf n ws ->
  exists ws', shl n ws p = Ok ws' /\ wf n ws' /\
    forall i, i < n -> bit ws' i = (p <=? i) && bit ws (i - p).
Proof.
  intros n ws p Hn Hwf.
  destruct (N.le_gt_cases n p) as [Hge|Hlt].
  - (* pos >= N : reset() *)
    unfold shl. replace (n <=? p) with true by lia.
    destruct (reset_all_spec n ws Hn Hwf) as (W & B).
    exists (reset_all ws). split; [reflexivity|]. split; [exact W|].
    intros i Hi. rewrite B. replace (p <=? i) with false by lia. reflexivity.
  - destruct (N.eq_dec p 0) as [->|Hp0].
    + unfold shl. replace (n <=? 0) with false by lia. cbn [N.eqb bind].
      pose proof (wf_words_ok _ _ Hwf) as O. destruct Hwf as (L & F & P).
      destruct (mask_last_bit_spec n ws Hn L O) as (ws' & E & L' & O' & B).
      exists ws'. split; [exact E|]. split; [eapply wf_intro; eauto|].
      intros i Hi. rewrite B, N.sub_0_r. replace (i <? n) with true by lia.
      replace (0 <=? i) with true by lia. reflexivity.
    + rewrite shl_unfold by assumption.
      destruct (shl_body_spec n ws p Hn Hwf Hlt Hp0) as (ws1 & E1 & L1 & B1).
      rewrite E1. cbn [bind].
      destruct (shift_facts n ws p Hn Hwf Hlt Hp0) as (Hbs & _).
      destruct (mask_last_bit_spec n ws1 Hn) as (ws' & E & L' & O' & B).
      * lia.
      * intros j b Hb. fold (wbit ws1 j b). rewrite B1. replace (b <? 64) with false by lia. reflexivity.
      * exists ws'. split; [exact E|]. split; [eapply wf_intro; eauto|].
        intros i Hi. rewrite B. replace (i <? n) with true by lia. cbn [andb].
        rewrite bit_split, B1.
        pose proof (nwords_bound n i Hi).
        replace (i mod 64 <? 64) with true by lia.
        replace (N.to_nat (i / 64) <? length ws)%nat with true by lia. cbn [andb].
        replace (64 * N.of_nat (N.to_nat (i / 64)) + i mod 64) with i by lia. reflexivity.
Qed.

Theorem shr_spec : forall n ws p, 1 <= n -> wf n ws ->
  exists ws', shr n ws p = Ok ws' /\ wf n ws' /\
    forall i, i < n -> bit ws' i = (i + p <? n) && bit ws (i + p).
Proof.
  intros n ws p Hn Hwf.
  assert (Hpad : forall i, bit ws (i + p) = (i + p <? n) && bit ws (i + p)).
  { intro i. destruct (N.ltb_spec (i + p) n); [reflexivity|]. destruct Hwf as (_ & _ & P). now apply P. }
  destruct (N.le_gt_cases n p) as [Hge|Hlt].
  - unfold shr. replace (n <=? p) with true by lia.
    destruct (reset_all_spec n ws Hn Hwf) as (W & B).
    exists (reset_all ws). split; [reflexivity|]. split; [exact W|].
    intros i Hi. rewrite B. replace (i + p <? n) with false by lia. reflexivity.
  - destruct (N.eq_dec p 0) as [->|Hp0].
    + unfold shr. replace (n <=? 0) with false by lia. cbn [N.eqb bind].
      pose proof (wf_words_ok _ _ Hwf) as O. destruct Hwf as (L & F & P).
      destruct (mask_last_bit_spec n ws Hn L O) as (ws' & E & L' & O' & B).
      exists ws'. split; [exact E|]. split; [eapply wf_intro; eauto|].
      intros i Hi. rewrite B, N.add_0_r. reflexivity.
    + rewrite shr_unfold by assumption.
      destruct (shr_body_spec n ws p Hn Hwf Hlt Hp0) as (ws1 & E1 & L1 & B1).
      rewrite E1. cbn [bind].
      destruct (shift_facts n ws p Hn Hwf Hlt Hp0) as (Hbs & _).
      destruct (mask_last_bit_spec n ws1 Hn) as (ws' & E & L' & O' & B).
      * lia.
      * intros j b Hb. fold (wbit ws1 j b). rewrite B1. replace (b <? 64) with false by lia. reflexivity.
      * exists ws'. split; [exact E|]. split; [eapply wf_intro; eauto|].
        intros i Hi. rewrite B. replace (i <? n) with true by lia. cbn [andb].
        rewrite bit_split, B1.
        pose proof (nwords_bound n i Hi).
        replace (i mod 64 <? 64) with true by lia.
        replace (N.to_nat (i / 64) <? length ws)%nat with true by lia. cbn [andb].
        replace (64 * N.of_nat (N.to_nat (i / 64)) + i mod 64) with i by lia. apply Hpad.
Qed.
