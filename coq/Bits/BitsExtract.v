From FV Require Import Common.ExtractTypes Bits.BitsetModel Bits.PrngModel Bits.SortModel.
From Coq Require Extraction.
From Coq Require Import ExtrOcamlBasic.
Extraction "../build/extract/bits_model.ml" types_witness
  ctor_default ctor_val apply_op query count nwords
  mt_default_seed mt_seed mt_next mt_outputs pcg_seed pcg_next pcg_bounded pcg_threshold
  insertion_sort isort_idx arr_index arr_front arr_back arr_iter arr_concat arr_eqb arr_neb.
