(* Base lemmas for the bitset proofs: the res monad, rd/wr, in-place folds over index sequences,
   and the uint64 operations at testbit level. *)
From Coq Require Import List NArith Arith Bool Lia ZArith ZifyBool ZifyNat ZifyN.
From FV Require Import Bits.BitsetModel.
Import ListNotations.
Local Open Scope N_scope.
Ltac Zify.zify_post_hook ::= Z.div_mod_to_equations.

(* ---- pure update -------------------------------------------------------------------------- *)
Fixpoint upd (ws : list N) (i : nat) (v : N) : list N :=
  match ws, i with
  | [], _ => []
  | _ :: r, O => v :: r
  | w :: r, S j => w :: upd r j v
  end.

Lemma upd_length : forall ws i v, length (upd ws i v) = length ws.
Proof. induction ws as [|w r IH]; intros [|i] v; cbn [upd length]; auto. Qed.

Lemma nth_upd : forall ws i v j, (i < length ws)%nat ->
  nth j (upd ws i v) 0 = if Nat.eqb j i then v else nth j ws 0.
Proof.
  induction ws as [|w r IH]; intros [|i] v [|j] H; cbn [upd nth length Nat.eqb] in *; try lia; auto.
  apply IH. lia.
Qed.

Lemma wr_ok : forall ws i v, (i < length ws)%nat -> wr ws i v = Ok (upd ws i v).
Proof.
  induction ws as [|w r IH]; intros [|i] v H; cbn [wr upd length] in *; try lia; auto.
  rewrite IH by lia. reflexivity.
Qed.

Lemma rd_ok : forall ws i, (i < length ws)%nat -> rd ws i = Ok (nth i ws 0).
Proof.
  intros ws i H. unfold rd. rewrite (nth_error_nth' ws 0 H). reflexivity.
Qed.

(* ---- splitting index sequences ------------------------------------------------------------ *)
Lemma seq_split_inv : forall pre a len i post,
  seq a len = pre ++ i :: post ->
  i = (a + length pre)%nat /\ (a + length pre < a + len)%nat /\ forall p, In p pre -> (a <= p < i)%nat.
Proof.
  induction pre as [|x pre IH]; intros a len i post H.
  - destruct len as [|len]; cbn [seq app] in H; [discriminate|]. inversion H; subst.
    cbn [length]. split; [lia|]. split; [lia|]. intros p [].
  - destruct len as [|len]; cbn [seq app] in H; [discriminate|]. inversion H; subst.
    destruct (IH _ _ _ _ H2) as (Hi & Hl & Hp). cbn [length]. split; [lia|]. split; [lia|].
    intros p [<-|Hin]; [lia|]. specialize (Hp p Hin). lia.
Qed.

Lemma seq_app_inv : forall l1 a len l2,
  seq a len = l1 ++ l2 -> l2 = seq (a + length l1) (len - length l1).
Proof.
  induction l1 as [|x l1 IH]; intros a len l2 H; cbn [app length] in *.
  - rewrite Nat.add_0_r, Nat.sub_0_r. now symmetry.
  - destruct len as [|len]; cbn [seq] in H; [discriminate|]. inversion H; subst.
    rewrite (IH _ _ _ H2). f_equal; lia.
Qed.

Lemma rev_seq_split_inv : forall pre a len i post,
  rev (seq a len) = pre ++ i :: post ->
  (a <= i < a + len)%nat /\ forall p, In p pre -> (i < p < a + len)%nat.
Proof.
  intros pre a len i post H.
  assert (H' : seq a len = rev post ++ i :: rev pre).
  { rewrite <- (rev_involutive (seq a len)), H, rev_app_distr. cbn [rev]. now rewrite <- app_assoc. }
  pose proof (seq_split_inv _ _ _ _ _ H') as (Hi & Hl & _).
  split; [lia|]. intros p Hp.
  assert (Hin : In p (seq a len)). { rewrite H'. apply in_or_app. right. right. now apply -> in_rev. }
  apply in_seq in Hin.
  pose proof (seq_app_inv _ _ _ _ H') as E.
  destruct (len - length (rev post))%nat as [|k]; cbn [seq] in E; [discriminate|].
  inversion E as [[E1 E2]].
  assert (Hp' : In p (rev pre)) by (now apply -> in_rev).
  rewrite E2 in Hp'. apply in_seq in Hp'. lia.
Qed.

(* ---- in-place folds ------------------------------------------------------------------------ *)
(* A loop `for i in is: buffer[i] = g(buffer, i)` computes G pointwise, provided each g(.., i) gives
   G i on every state that agrees with the initial one outside the indices written before i. *)
Lemma foldM_inplace : forall (g : list N -> nat -> res N) (G : nat -> N) (is : list nat) (ws : list N),
  (forall i, In i is -> (i < length ws)%nat) ->
  (forall pre i post ws', is = pre ++ i :: post -> length ws' = length ws ->
     (forall p, ~ In p pre -> nth p ws' 0 = nth p ws 0) -> g ws' i = Ok (G i)) ->
  exists ws', foldM (fun ws i => v <- g ws i ;; wr ws i v) is ws = Ok ws' /\
     length ws' = length ws /\
     (forall p, In p is -> nth p ws' 0 = G p) /\
     (forall p, ~ In p is -> nth p ws' 0 = nth p ws 0).
Proof.
  intros g G. induction is as [|i rest IH]; intros ws Hb Hg.
  - exists ws. cbn [foldM]. repeat split; auto. intros p [].
  - cbn [foldM].
    rewrite (Hg [] i rest ws eq_refl eq_refl) by auto. cbn [bind].
    assert (Hi : (i < length ws)%nat) by (apply Hb; now left).
    rewrite wr_ok by exact Hi. cbn [bind].
    destruct (IH (upd ws i (G i))) as (ws' & Hf & Hl & Hin & Hout).
    + intros j Hj. rewrite upd_length. apply Hb. now right.
    + intros pre j post ws1 E L A. apply (Hg (i :: pre) j post).
      * cbn [app]. now f_equal.
      * now rewrite L, upd_length.
      * intros p Hp. rewrite A by (intro; apply Hp; now right).
        rewrite nth_upd by exact Hi. destruct (Nat.eqb_spec p i); [|reflexivity].
        exfalso. apply Hp. now left.
    + exists ws'. split; [exact Hf|]. split; [now rewrite Hl, upd_length|]. split.
      * intros p [<-|Hp]; [|now apply Hin].
        destruct (in_dec Nat.eq_dec i rest) as [Hr|Hr]; [now apply Hin|].
        rewrite Hout by exact Hr. rewrite nth_upd by exact Hi. now rewrite Nat.eqb_refl.
      * intros p Hp. rewrite Hout by (intro; apply Hp; now right).
        rewrite nth_upd by exact Hi. destruct (Nat.eqb_spec p i); [|reflexivity].
        exfalso. apply Hp. now left.
Qed.

(* ---- uint64 at testbit level ---------------------------------------------------------------- *)
Definition word_ok (w : N) : Prop := forall b, 64 <= b -> N.testbit w b = false.

Lemma mask64_ones : mask64 = N.ones 64.
Proof. reflexivity. Qed.

Lemma ones_bit : forall k b, N.testbit (N.ones k) b = (b <? k).
Proof.
  intros k b. destruct (N.ltb_spec b k).
  - now apply N.ones_spec_low.
  - now apply N.ones_spec_high.
Qed.

Lemma trunc64_bit : forall x b, N.testbit (trunc64 x) b = N.testbit x b && (b <? 64).
Proof. intros. unfold trunc64. now rewrite N.land_spec, mask64_ones, ones_bit. Qed.

Lemma not64_bit : forall x b, N.testbit (not64 x) b = xorb (N.testbit x b) (b <? 64).
Proof. intros. unfold not64. now rewrite N.lxor_spec, mask64_ones, ones_bit. Qed.

Lemma shiftl_bit : forall x k b, N.testbit (N.shiftl x k) b = (k <=? b) && N.testbit x (b - k).
Proof.
  intros x k b. destruct (N.leb_spec k b).
  - now rewrite N.shiftl_spec_high' by assumption.
  - now rewrite N.shiftl_spec_low by assumption.
Qed.

Lemma shl64_bit : forall x k b,
  N.testbit (shl64 x k) b = (b <? 64) && (k <=? b) && N.testbit x (b - k).
Proof.
  intros. unfold shl64. rewrite trunc64_bit, shiftl_bit.
  destruct (b <? 64), (k <=? b), (N.testbit x (b - k)); reflexivity.
Qed.

Lemma shr64_bit : forall x k b, N.testbit (shr64 x k) b = N.testbit x (b + k).
Proof. intros. unfold shr64. apply N.shiftr_spec'. Qed.

Lemma word_ok_lt : forall w, w < 2 ^ 64 -> word_ok w.
Proof.
  intros w H b Hb. destruct (N.eq_dec w 0) as [->|Hz]; [apply N.bits_0|].
  apply N.bits_above_log2. apply N.log2_lt_pow2 in H; [|lia]. lia.
Qed.

Lemma lt_word_ok : forall w, word_ok w -> w < 2 ^ 64.
Proof.
  intros w H. assert (E : w = w mod 2 ^ 64).
  { apply N.bits_inj. intro b. destruct (N.ltb_spec b 64).
    - now rewrite N.mod_pow2_bits_low.
    - rewrite N.mod_pow2_bits_high by assumption. now apply H. }
  rewrite E. apply N.mod_lt. discriminate.
Qed.

Lemma word_ok_0 : word_ok 0.
Proof. intros b _. apply N.bits_0. Qed.

Lemma b2n_bit : forall v b, N.testbit (b2n v) b = v && (b =? 0).
Proof.
  intros [|] b; cbn [b2n andb].
  - destruct (N.eqb_spec b 0) as [->|H]; [reflexivity|].
    apply N.bits_above_log2. cbn. lia.
  - apply N.bits_0.
Qed.
