(* Proofs about the insertion_sort model (C18_sort) and the array identities. *)
From Coq Require Import List Arith Bool Lia Permutation Sorted.
From FV Require Import Bits.SortModel.
Import ListNotations.

Section SortProofs.
Context {A : Type}.
Variable comp : A -> A -> bool.
Hypothesis comp_asym : forall a b, comp a b = true -> comp b a = false.
Hypothesis comp_trans : forall a b c, comp a b = true -> comp b c = true -> comp a c = true.

(* no earlier element is comp-below a later one *)
Definition no_inversion (l : list A) : Prop :=
  forall i j a b, i < j -> nth_error l i = Some a -> nth_error l j = Some b -> comp a b = false.

Lemma inner_perm : forall rest x x' r',
  inner comp x rest = (x', r') -> Permutation (x :: rest) (x' :: r').
Proof.
  induction rest as [|y r IH]; intros x x' r' H; cbn [inner] in H.
  - inversion H; subst. apply Permutation_refl.
  - destruct (comp x y) eqn:C.
    + destruct (inner comp y r) as [x1 r1] eqn:E. inversion H; subst.
      apply IH in E. eapply perm_trans. apply perm_skip. exact E. apply perm_swap.
    + destruct (inner comp x r) as [x1 r1] eqn:E. inversion H; subst.
      apply IH in E. eapply perm_trans. apply perm_swap.
      eapply perm_trans. apply perm_skip. exact E. apply perm_swap.
Qed.

Lemma inner_length : forall rest x x' r', inner comp x rest = (x', r') -> length r' = length rest.
Proof.
  intros rest x x' r' H. apply inner_perm in H. apply Permutation_length in H.
  cbn [length] in H. lia.
Qed.

(* inner-loop invariant: the element held at position i is never comp-below anything already scanned *)
Lemma inner_spec : forall rest x x' r',
  inner comp x rest = (x', r') ->
  (x' = x \/ comp x x' = true) /\ (forall y, In y r' -> comp x' y = false).
Proof.
  induction rest as [|y r IH]; intros x x' r' H; cbn [inner] in H.
  - inversion H; subst. split; [now left | intros y []].
  - destruct (comp x y) eqn:C.
    + destruct (inner comp y r) as [x1 r1] eqn:E. inversion H; subst.
      destruct (IH _ _ _ E) as [Hx Hr].
      assert (Hxx : comp x x' = true).
      { destruct Hx as [->|Hx]; [exact C | eapply comp_trans; eauto]. }
      split; [now right|]. intros z [<-|Hz]; [now apply comp_asym | now apply Hr].
    + destruct (inner comp x r) as [x1 r1] eqn:E. inversion H; subst.
      destruct (IH _ _ _ E) as [Hx Hr].
      split; [exact Hx|]. intros z [<-|Hz]; [|now apply Hr].
      destruct Hx as [->|Hx]; [exact C|].
      destruct (comp x' y) eqn:C2; [|reflexivity].
      rewrite (comp_trans _ _ _ Hx C2) in C. discriminate.
Qed.

Lemma isort_n_perm : forall n l, length l = n -> Permutation l (isort_n comp n l).
Proof.
  induction n as [|n IH]; intros l Hl; destruct l as [|x r]; cbn [isort_n]; try apply Permutation_refl.
  destruct (inner comp x r) as [x' r'] eqn:E.
    pose proof (inner_perm _ _ _ _ E) as P. pose proof (inner_length _ _ _ _ E) as L.
    eapply perm_trans. exact P. apply perm_skip. apply IH. cbn [length] in Hl. lia.
Qed.

Lemma isort_n_sorted : forall n l, length l = n ->
  StronglySorted (fun a b => comp a b = false) (isort_n comp n l).
Proof.
  induction n as [|n IH]; intros l Hl; destruct l as [|x r]; cbn [isort_n];
    try discriminate Hl; try (constructor; fail).
  destruct (inner comp x r) as [x' r'] eqn:E.
  pose proof (inner_spec _ _ _ _ E) as [_ Hr]. pose proof (inner_length _ _ _ _ E) as L.
  cbn [length] in Hl.
  constructor. apply IH; lia.
  apply Forall_forall. intros y Hy. apply Hr.
  assert (Hn : length r' = n) by lia.
  exact (Permutation_in _ (Permutation_sym (isort_n_perm n r' Hn)) Hy).
Qed.

Lemma strongly_sorted_no_inversion : forall l,
  StronglySorted (fun a b => comp a b = false) l -> no_inversion l.
Proof.
  induction 1 as [|x l Hs IH Hx]; intros i j a b Hij Hi Hj.
  - destruct i; discriminate.
  - destruct j as [|j]; [lia|]. cbn [nth_error] in Hj.
    destruct i as [|i]; cbn [nth_error] in Hi.
    + inversion Hi; subst. rewrite Forall_forall in Hx. apply Hx. eapply nth_error_In; eauto.
    + eapply IH; [|eauto|eauto]. lia.
Qed.

Theorem insertion_sort_correct : forall l,
  Permutation l (insertion_sort comp l) /\ no_inversion (insertion_sort comp l).
Proof.
  intro l. unfold insertion_sort. split.
  - now apply isort_n_perm.
  - apply strongly_sorted_no_inversion. now apply isort_n_sorted.
Qed.
End SortProofs.

(* array: the list identities *)
Lemma arr_back_last : forall {A} (l : list A) d, l <> [] -> arr_back l = Some (last l d).
Proof.
  intros A l d Hl. unfold arr_back, arr_index.
  induction l as [|x r IH]; [congruence|].
  destruct r as [|y r']; [reflexivity|].
  assert (H : y :: r' <> []) by congruence. specialize (IH H).
  cbn [length] in *. replace (S (S (length r')) - 1) with (S (length r')) by lia.
  replace (S (length r') - 1) with (length r') in IH by lia.
  cbn [nth_error]. rewrite IH. reflexivity.
Qed.
Lemma arr_front_hd : forall {A} (l : list A) d, l <> [] -> arr_front l = Some (hd d l).
Proof. intros A [|x r] d H; [congruence|reflexivity]. Qed.
Lemma arr_index_nth : forall {A} (l : list A) i d, i < length l -> arr_index l i = Some (nth i l d).
Proof. intros A l i d H. unfold arr_index. now apply nth_error_nth'. Qed.
Lemma arr_concat_concat : forall {A} (ls : list (list A)), arr_concat ls = concat ls.
Proof.
  intros A ls. unfold arr_concat.
  assert (G : forall acc, fold_left (fun a l => a ++ l) ls acc = acc ++ concat ls).
  { induction ls as [|l r IH]; intro acc; cbn [fold_left concat]; [now rewrite app_nil_r|].
    rewrite IH. now rewrite app_assoc. }
  apply G.
Qed.

(* the literal index/swap reading of the double loop is the structural one *)
Section SortIdx.
Context {A : Type}.
Variable comp : A -> A -> bool.
Variable d : A.

Lemma upd_app_mid : forall (pre : list A) x r v, upd (pre ++ x :: r) (length pre) v = pre ++ v :: r.
Proof. induction pre as [|p pre IH]; intros; cbn [app length upd]; [reflexivity|]. now rewrite IH. Qed.

Lemma swap_mid : forall (pre done todo : list A) x y,
  swap d (pre ++ x :: done ++ y :: todo) (length pre) (length pre + 1 + length done) =
  pre ++ y :: done ++ x :: todo.
Proof.
  intros pre done todo x y. unfold swap.
  assert (Ej : nth (length pre + 1 + length done) (pre ++ x :: done ++ y :: todo) d = y).
  { replace (pre ++ x :: done ++ y :: todo) with ((pre ++ x :: done) ++ y :: todo)
      by (rewrite <- app_assoc; reflexivity).
    replace (length pre + 1 + length done) with (length (pre ++ x :: done))
      by (rewrite app_length; cbn [length]; lia).
    apply nth_middle. }
  rewrite Ej, nth_middle, upd_app_mid.
  replace (pre ++ y :: done ++ y :: todo) with ((pre ++ y :: done) ++ y :: todo)
    by (rewrite <- app_assoc; reflexivity).
  replace (length pre + 1 + length done) with (length (pre ++ y :: done))
    by (rewrite app_length; cbn [length]; lia).
  rewrite upd_app_mid, <- app_assoc. reflexivity.
Qed.

Lemma inner_fold : forall (todo : list A) x done pre,
  fold_left (fun l j => if comp (nth (length pre) l d) (nth j l d) then swap d l (length pre) j else l)
            (seq (length pre + 1 + length done) (length todo)) (pre ++ x :: done ++ todo) =
  let (x', r') := inner comp x todo in pre ++ x' :: done ++ r'.
Proof.
  induction todo as [|y t IH]; intros x done pre; cbn [length seq fold_left inner]; [reflexivity|].
  assert (Ej : nth (length pre + 1 + length done) (pre ++ x :: done ++ y :: t) d = y).
  { replace (pre ++ x :: done ++ y :: t) with ((pre ++ x :: done) ++ y :: t)
      by (rewrite <- app_assoc; reflexivity).
    replace (length pre + 1 + length done) with (length (pre ++ x :: done))
      by (rewrite app_length; cbn [length]; lia).
    apply nth_middle. }
  rewrite Ej, nth_middle.
  replace (S (length pre + 1 + length done)) with (length pre + 1 + length (done ++ [x]))
    by (rewrite app_length; cbn [length]; lia).
  destruct (comp x y) eqn:C.
  - rewrite swap_mid.
    replace (pre ++ y :: done ++ x :: t) with (pre ++ y :: (done ++ [x]) ++ t)
      by (rewrite <- app_assoc; reflexivity).
    rewrite IH. destruct (inner comp y t) as [x' r']. now rewrite <- app_assoc.
  - replace (length (done ++ [x])) with (length (done ++ [y])) by (rewrite !app_length; reflexivity).
    replace (pre ++ x :: done ++ y :: t) with (pre ++ x :: (done ++ [y]) ++ t)
      by (rewrite <- app_assoc; reflexivity).
    rewrite IH. destruct (inner comp x t) as [x' r']. now rewrite <- app_assoc.
Qed.

Lemma inner_idx_spec : forall (pre rest : list A) x,
  inner_idx comp d (pre ++ x :: rest) (length pre) = let (x', r') := inner comp x rest in pre ++ x' :: r'.
Proof.
  intros pre rest x. unfold inner_idx.
  replace (length (pre ++ x :: rest) - S (length pre)) with (length rest)
    by (rewrite app_length; cbn [length]; lia).
  replace (S (length pre)) with (length pre + 1 + length (@nil A)) by (cbn [length]; lia).
  exact (inner_fold rest x [] pre).
Qed.

Lemma outer_fold : forall n (pre rest : list A), length rest = n ->
  fold_left (inner_idx comp d) (seq (length pre) n) (pre ++ rest) = pre ++ isort_n comp n rest.
Proof.
  induction n as [|n IH]; intros pre rest L; destruct rest as [|x r]; try discriminate L; cbn [seq fold_left isort_n].
  - reflexivity.
  - rewrite inner_idx_spec. destruct (inner comp x r) as [x' r'] eqn:E.
    pose proof (inner_length comp _ _ _ _ E) as L'. cbn [length] in L.
    replace (pre ++ x' :: r') with ((pre ++ [x']) ++ r') by (rewrite <- app_assoc; reflexivity).
    replace (S (length pre)) with (length (pre ++ [x'])) by (rewrite app_length; cbn [length]; lia).
    rewrite IH by lia. now rewrite <- app_assoc.
Qed.

Theorem isort_idx_eq : forall l : list A, isort_idx comp d l = insertion_sort comp l.
Proof. intro l. unfold isort_idx, insertion_sort. exact (outer_fold (length l) [] l eq_refl). Qed.
End SortIdx.

(* array equality is list equality under the element's == ; nothing is assumed about eqA *)
Lemma arr_eqb_Forall2 : forall {A} (eqA : A -> A -> bool) (l1 l2 : list A),
  arr_eqb eqA l1 l2 = true <-> Forall2 (fun x y => eqA x y = true) l1 l2.
Proof.
  intros A eqA. induction l1 as [|x r IH]; intros [|y s]; cbn [arr_eqb]; split; intro H;
    try discriminate; try constructor; try (inversion H; fail).
  - apply andb_prop in H. tauto.
  - apply andb_prop in H. apply IH. tauto.
  - inversion H; subst. apply andb_true_intro. split; [assumption|]. now apply IH.
Qed.

Lemma array_identities_all : forall (A : Type) (l : list A) (d : A), l <> [] ->
  arr_back l = Some (last l d) /\ arr_front l = Some (hd d l) /\
  (forall i, i < length l -> arr_index l i = Some (nth i l d)) /\
  (forall ls : list (list A), arr_concat ls = concat ls) /\
  (* == / != : list equality under the element type's own ==, about which NOTHING is assumed (NaN, -0.0, padding) *)
  (forall (eqA : A -> A -> bool) l1 l2,
     (arr_eqb eqA l1 l2 = true <-> Forall2 (fun x y => eqA x y = true) l1 l2) /\
     arr_neb eqA l1 l2 = negb (arr_eqb eqA l1 l2)).
Proof.
  intros A l d H. split; [now apply arr_back_last|]. split; [now apply arr_front_hd|].
  split; [intros i Hi; now apply arr_index_nth |]. split; [apply arr_concat_concat|].
  intros eqA l1 l2. split; [apply arr_eqb_Forall2 | reflexivity].
Qed.
