(* Proofs about the insertion_sort model (C18_sort) and the array identities. *)
From Coq Require Import List Arith Bool Lia Permutation Sorted.
From FV Require Import Bits.SortModel.
Import ListNotations.

Section SortProofs.
Context {A : Type}.
Variable comp : A -> A -> bool.
Hypothesis comp_asym : forall a b, comp a b = true -> comp b a = false.
Hypothesis comp_trans : forall a b c, comp a b = true -> comp b c = true -> comp a c = true.

(* no earlier element is comp-below a later one *)
Definition no_inversion (l : list A) : Prop :=
  forall i j a b, i < j -> nth_error l i = Some a -> nth_error l j = Some b -> comp a b = false.

Lemma inner_perm : forall rest x x' r',
  inner comp x rest = (x', r') -> Permutation (x :: rest) (x' :: r').
Proof.
  induction rest as [|y r IH]; intros x x' r' H; cbn [inner] in H.
  - inversion H; subst. apply Permutation_refl.
  - destruct (comp x y) eqn:C.
    + destruct (inner comp y r) as [x1 r1] eqn:E. inversion H; subst.
      apply IH in E. eapply perm_trans. apply perm_skip. exact E. apply perm_swap.
    + destruct (inner comp x r) as [x1 r1] eqn:E. inversion H; subst.
      apply IH in E. eapply perm_trans. apply perm_swap.
      eapply perm_trans. apply perm_skip. exact E. apply perm_swap.
Qed.

Lemma inner_length : forall rest x x' r', inner comp x rest = (x', r') -> length r' = length rest.
Proof.
  intros rest x x' r' H. apply inner_perm in H. apply Permutation_length in H.
  cbn [length] in H. lia.
Qed.

(* inner-loop invariant: the element held at position i is never comp-below anything already scanned *)
Lemma inner_spec : forall rest x x' r',
  inner comp x rest = (x', r') ->
  (x' = x \/ comp x x' = true) /\ (forall y, In y r' -> comp x' y = false).
Proof.
  induction rest as [|y r IH]; intros x x' r' H; cbn [inner] in H.
  - inversion H; subst. split; [now left | intros y []].
  - destruct (comp x y) eqn:C.
    + destruct (inner comp y r) as [x1 r1] eqn:E. inversion H; subst.
      destruct (IH _ _ _ E) as [Hx Hr].
      assert (Hxx : comp x x' = true).
      { destruct Hx as [->|Hx]; [exact C | eapply comp_trans; eauto]. }
      split; [now right|]. intros z [<-|Hz]; [now apply comp_asym | now apply Hr].
    + destruct (inner comp x r) as [x1 r1] eqn:E. inversion H; subst.
      destruct (IH _ _ _ E) as [Hx Hr].
      split; [exact Hx|]. intros z [<-|Hz]; [|now apply Hr].
      destruct Hx as [->|Hx]; [exact C|].
      destruct (comp x' y) eqn:C2; [|reflexivity].
      rewrite (comp_trans _ _ _ Hx C2) in C. discriminate.
Qed.

Lemma isort_n_perm : forall n l, length l = n -> Permutation l (isort_n comp n l).
Proof.
  induction n as [|n IH]; intros l Hl; destruct l as [|x r]; cbn [isort_n]; try apply Permutation_refl.
  destruct (inner comp x r) as [x' r'] eqn:E.
    pose proof (inner_perm _ _ _ _ E) as P. pose proof (inner_length _ _ _ _ E) as L.
    eapply perm_trans. exact P. apply perm_skip. apply IH. cbn [length] in Hl. lia.
Qed.

Lemma isort_n_sorted : forall n l, length l = n ->
  StronglySorted (fun a b => comp a b = false) (isort_n comp n l).
Proof.
  induction n as [|n IH]; intros l Hl; destruct l as [|x r]; cbn [isort_n];
    try discriminate Hl; try (constructor; fail).
  destruct (inner comp x r) as [x' r'] eqn:E.
  pose proof (inner_spec _ _ _ _ E) as [_ Hr]. pose proof (inner_length _ _ _ _ E) as L.
  cbn [length] in Hl.
  constructor. apply IH; lia.
  apply Forall_forall. intros y Hy. apply Hr.
  assert (Hn : length r' = n) by lia.
  exact (Permutation_in _ (Permutation_sym (isort_n_perm n r' Hn)) Hy).
Qed.

Lemma strongly_sorted_no_inversion : forall l,
  StronglySorted (fun a b => comp a b = false) l -> no_inversion l.
Proof.
  induction 1 as [|x l Hs IH Hx]; intros i j a b Hij Hi Hj.
  - destruct i; discriminate.
  - destruct j as [|j]; [lia|]. cbn [nth_error] in Hj.
    destruct i as [|i]; cbn [nth_error] in Hi.
    + inversion Hi; subst. rewrite Forall_forall in Hx. apply Hx. eapply nth_error_In; eauto.
    + eapply IH; [|eauto|eauto]. lia.
Qed.

Theorem insertion_sort_correct : forall l,
  Permutation l (insertion_sort comp l) /\ no_inversion (insertion_sort comp l).
Proof.
  intro l. unfold insertion_sort. split.
  - now apply isort_n_perm.
  - apply strongly_sorted_no_inversion. now apply isort_n_sorted.
Qed.
End SortProofs.

(* array: the list identities *)
Lemma arr_back_last : forall {A} (l : list A) d, l <> [] -> arr_back l = Some (last l d).
Proof.
  intros A l d Hl. unfold arr_back, arr_index.
  induction l as [|x r IH]; [congruence|].
  destruct r as [|y r']; [reflexivity|].
  assert (H : y :: r' <> []) by congruence. specialize (IH H).
  cbn [length] in *. replace (S (S (length r')) - 1) with (S (length r')) by lia.
  replace (S (length r') - 1) with (length r') in IH by lia.
  cbn [nth_error]. rewrite IH. reflexivity.
Qed.
Lemma arr_front_hd : forall {A} (l : list A) d, l <> [] -> arr_front l = Some (hd d l).
Proof. intros A [|x r] d H; [congruence|reflexivity]. Qed.
Lemma arr_index_nth : forall {A} (l : list A) i d, i < length l -> arr_index l i = Some (nth i l d).
Proof. intros A l i d H. unfold arr_index. now apply nth_error_nth'. Qed.
Lemma arr_concat_concat : forall {A} (ls : list (list A)), arr_concat ls = concat ls.
Proof.
  intros A ls. unfold arr_concat.
  assert (G : forall acc, fold_left (fun a l => a ++ l) ls acc = acc ++ concat ls).
  { induction ls as [|l r IH]; intro acc; cbn [fold_left concat]; [now rewrite app_nil_r|].
    rewrite IH. now rewrite app_assoc. }
  apply G.
Qed.
