(* pcg_basic32: the state recurrence, the output permutation (the shift/or expression is the 32-bit
   rotation for every rotation count), and the bounded draw. *)
From Coq Require Import List NArith Arith Bool Lia ZArith ZifyBool ZifyNat ZifyN.
From FV Require Import Bits.PrngModel.
Import ListNotations.
Local Open Scope N_scope.
Ltac Zify.zify_post_hook ::= Z.div_mod_to_equations.

Lemma t32_mod : forall x, t32 x = x mod 2 ^ 32.
Proof. intro x. unfold t32. change m32 with (N.ones 32). apply N.land_ones. Qed.
Lemma t64_mod : forall x, t64 x = x mod 2 ^ 64.
Proof. intro x. unfold t64. change m64 with (N.ones 64). apply N.land_ones. Qed.

Lemma t32_bit : forall x b, N.testbit (t32 x) b = N.testbit x b && (b <? 32).
Proof.
  intros. unfold t32. change m32 with (N.ones 32). rewrite N.land_spec. f_equal.
  destruct (N.ltb_spec b 32); [now apply N.ones_spec_low | now apply N.ones_spec_high].
Qed.

Lemma small_bits : forall x k b, x < 2 ^ k -> k <= b -> N.testbit x b = false.
Proof.
  intros x k b Hx Hb. destruct (N.eq_dec x 0) as [->|Hz]; [apply N.bits_0|].
  apply N.bits_above_log2. apply N.log2_lt_pow2 in Hx; lia.
Qed.

(* ---- one step ---- *)
Theorem pcg_next_spec : forall g,
  pcg_next g = (mk_pcg ((pcg_state g * pcg_mult + pcg_inc g) mod 2 ^ 64) (pcg_inc g), pcg_output (pcg_state g)).
Proof. intro g. unfold pcg_next. now rewrite t64_mod. Qed.

(* (x >> r) | (x << ((-r) & 31)) is the rotation to the right by r, for every r < 32 *)
Theorem rotr_expr_rotates : forall x r, x < 2 ^ 32 -> r < 32 ->
  rotr_expr x r < 2 ^ 32 /\ forall i, i < 32 -> N.testbit (rotr_expr x r) i = N.testbit x ((i + r) mod 32).
Proof.
  intros x r Hx Hr.
  assert (Hk : N.land (t32 (4294967296 - r)) pcg_rot_mask = (32 - r) mod 32).
  { change pcg_rot_mask with (N.ones 5). rewrite N.land_ones, t32_mod. change (2 ^ 5) with 32. change (2 ^ 32) with 4294967296. lia. }
  assert (Hbit : forall i, N.testbit (rotr_expr x r) i = (i <? 32) && N.testbit x ((i + r) mod 32)).
  { intro i. unfold rotr_expr. rewrite Hk, N.lor_spec, N.shiftr_spec', t32_bit.
    destruct (N.ltb_spec i 32) as [Hi|Hi].
    2:{ rewrite andb_false_r, orb_false_r. cbn [andb]. apply (small_bits x 32); [exact Hx|lia]. }
    rewrite andb_true_r. cbn [andb].
    destruct (N.eq_dec r 0) as [->|Hr0].
    - change ((32 - 0) mod 32) with 0. rewrite N.shiftl_0_r, N.add_0_r, orb_diag. f_equal. lia.
    - replace ((32 - r) mod 32) with (32 - r) by lia.
      destruct (N.ltb_spec (i + r) 32) as [Hs|Hs].
      + rewrite N.shiftl_spec_low by lia. rewrite orb_false_r. f_equal. lia.
      + rewrite (small_bits x 32 (i + r)) by (assumption || lia). cbn [orb].
        rewrite N.shiftl_spec_high' by lia. f_equal. lia. }
  split.
  - assert (E : rotr_expr x r = rotr_expr x r mod 2 ^ 32).
    { apply N.bits_inj. intro b. destruct (N.ltb_spec b 32).
      - now rewrite N.mod_pow2_bits_low.
      - rewrite N.mod_pow2_bits_high by assumption. rewrite Hbit. replace (b <? 32) with false by lia. reflexivity. }
    rewrite E. apply N.mod_lt. discriminate.
  - intros i Hi. rewrite Hbit. replace (i <? 32) with true by lia. reflexivity.
Qed.

(* the operands of the rotation are a uint32 and a 5-bit count, for every 64-bit state *)
Theorem pcg_output_operands : forall s, s < 2 ^ 64 ->
  let xorshifted := (N.lxor (s / 2 ^ 18) s / 2 ^ 27) mod 2 ^ 32 in
  let rot := s / 2 ^ 59 in
  pcg_output s = rotr_expr xorshifted rot /\ xorshifted < 2 ^ 32 /\ rot < 32.
Proof.
  intros s Hs. cbv zeta. unfold pcg_output, pcg_sh_a, pcg_sh_b, pcg_sh_rot. rewrite !t32_mod, !N.shiftr_div_pow2.
  assert (Hrot : s / 2 ^ 59 < 32).
  { apply N.div_lt_upper_bound; [discriminate|]. exact Hs. }
  rewrite (N.mod_small (s / 2 ^ 59)) by (change (2 ^ 32) with 4294967296; lia).
  split; [reflexivity|]. split; [apply N.mod_lt; discriminate|exact Hrot].
Qed.

(* ---- streams ---- *)
Fixpoint pcg_iter (k : nat) (g : pcg) : pcg :=
  match k with O => g | S k' => pcg_iter k' (fst (pcg_next g)) end.
Definition pcg_out (k : nat) (g : pcg) : N := snd (pcg_next (pcg_iter k g)).

Lemma pcg_iter_S : forall k g, pcg_iter (S k) g = fst (pcg_next (pcg_iter k g)).
Proof. induction k as [|k IH]; intro g; [reflexivity|]. cbn [pcg_iter] in *. now rewrite IH. Qed.

(* ---- bounded draw ---- *)
Theorem pcg_threshold_spec : forall bound, 0 < bound < 2 ^ 32 -> pcg_threshold bound = 2 ^ 32 mod bound.
Proof.
  intros bound Hb. unfold pcg_threshold. rewrite t32_mod.
  change (2 ^ 32) with 4294967296 in *.
  rewrite (N.mod_small (4294967296 - bound)) by lia.
  replace 4294967296 with ((4294967296 - bound) + 1 * bound) at 2 by lia.
  rewrite N.mod_add by lia. reflexivity.
Qed.

Lemma pcg_loop_spec : forall fuel g bound thr g' v,
  pcg_loop fuel g bound thr = DOk g' v ->
  exists k, (k < fuel)%nat /\ (forall j, (j < k)%nat -> pcg_out j g < thr) /\ thr <= pcg_out k g /\
            v = pcg_out k g mod bound /\ g' = pcg_iter (S k) g.
Proof.
  induction fuel as [|f IH]; intros g bound thr g' v H; cbn [pcg_loop] in H; [discriminate|].
  destruct (pcg_next g) as [g1 r] eqn:E.
  destruct (N.leb_spec thr r) as [Hle|Hgt].
  - inversion H; subst. exists 0%nat. unfold pcg_out. cbn [pcg_iter]. rewrite E. cbn [fst snd].
    split; [lia|]. split; [intros j Hj; lia|]. auto.
  - apply IH in H. destruct H as (k & Hk & Hlow & Hhit & Hv & Hg).
    exists (S k). split; [lia|]. unfold pcg_out in *. cbn [pcg_iter]. rewrite E. cbn [fst].
    split; [|auto].
    intros [|j] Hj; cbn [pcg_iter]; [now rewrite E|]. rewrite E. cbn [fst]. apply Hlow. lia.
Qed.

Lemma pcg_loop_complete : forall fuel g bound thr k,
  (k < fuel)%nat -> thr <= pcg_out k g -> exists g' v, pcg_loop fuel g bound thr = DOk g' v.
Proof.
  induction fuel as [|f IH]; intros g bound thr k Hk Hhit; [lia|]. cbn [pcg_loop].
  destruct (pcg_next g) as [g1 r] eqn:E.
  destruct (N.leb_spec thr r) as [Hle|Hgt]; [eauto|].
  destruct k as [|k].
  - unfold pcg_out in Hhit. cbn [pcg_iter] in Hhit. rewrite E in Hhit. cbn [snd] in Hhit. lia.
  - apply (IH g1 bound thr k); [lia|]. unfold pcg_out in *. cbn [pcg_iter] in Hhit. now rewrite E in Hhit.
Qed.

Theorem pcg_bounded_spec : forall fuel g bound g' v, 0 < bound < 2 ^ 32 ->
  pcg_bounded fuel g bound = DOk g' v ->
  v < bound /\
  exists k, (k < fuel)%nat /\ (forall j, (j < k)%nat -> pcg_out j g < 2 ^ 32 mod bound) /\
            2 ^ 32 mod bound <= pcg_out k g /\ v = pcg_out k g mod bound /\ g' = pcg_iter (S k) g.
Proof.
  intros fuel g bound g' v Hb H. unfold pcg_bounded in H.
  replace (bound =? 0) with false in H by lia. rewrite pcg_threshold_spec in H by exact Hb.
  apply pcg_loop_spec in H. destruct H as (k & Hk & Hlow & Hhit & Hv & Hg).
  split; [subst v; apply N.mod_lt; lia|]. exists k. auto.
Qed.

Theorem pcg_bounded_no_divzero : forall fuel g bound, 0 < bound -> pcg_bounded fuel g bound <> DDivZero.
Proof.
  intros fuel g bound Hb. unfold pcg_bounded. replace (bound =? 0) with false by lia.
  generalize (pcg_threshold bound). revert g. induction fuel as [|f IH]; intros g thr; cbn [pcg_loop]; [discriminate|].
  destruct (pcg_next g) as [g1 r]. destruct (thr <=? r); [discriminate|apply IH].
Qed.

(* conditional termination: fuel suffices as soon as one of the first [fuel] outputs reaches the threshold *)
Theorem pcg_bounded_terminates_if : forall fuel g bound k, 0 < bound < 2 ^ 32 ->
  (k < fuel)%nat -> 2 ^ 32 mod bound <= pcg_out k g -> exists g' v, pcg_bounded fuel g bound = DOk g' v.
Proof.
  intros fuel g bound k Hb Hk Hhit. unfold pcg_bounded. replace (bound =? 0) with false by lia.
  rewrite pcg_threshold_spec by exact Hb. eapply pcg_loop_complete; eauto.
Qed.

Lemma pcg_step_all : forall g : pcg,
  (* state recurrence *)
  pcg_next g = (mk_pcg ((pcg_state g * 6364136223846793005 + pcg_inc g) mod 2 ^ 64) (pcg_inc g),
                pcg_output (pcg_state g)) /\
  (* output = ror32 (((s >> 18) xor s) >> 27) (s >> 59) *)
  (forall s, s < 2 ^ 64 ->
     let xorshifted := (N.lxor (s / 2 ^ 18) s / 2 ^ 27) mod 2 ^ 32 in
     let rot := s / 2 ^ 59 in
     pcg_output s = rotr_expr xorshifted rot /\ xorshifted < 2 ^ 32 /\ rot < 32) /\
  (* (x >> r) | (x << ((-r) & 31)) IS the rotation, for every r < 32 *)
  (forall x r, x < 2 ^ 32 -> r < 32 ->
     rotr_expr x r < 2 ^ 32 /\ forall i, i < 32 -> N.testbit (rotr_expr x r) i = N.testbit x ((i + r) mod 32)).
Proof.
  intro g. split; [exact (pcg_next_spec g)|]. split; [exact pcg_output_operands|exact rotr_expr_rotates].
Qed.

Lemma pcg_bounded_all : forall fuel g bound g' v, 0 < bound < 2 ^ 32 ->
  pcg_threshold bound = 2 ^ 32 mod bound /\
  pcg_bounded fuel g bound <> DDivZero /\
  (pcg_bounded fuel g bound = DOk g' v ->
     v < bound /\
     exists k, (k < fuel)%nat /\ (forall j, (j < k)%nat -> pcg_out j g < 2 ^ 32 mod bound) /\
               2 ^ 32 mod bound <= pcg_out k g /\ v = pcg_out k g mod bound /\ g' = pcg_iter (S k) g).
Proof.
  intros fuel g bound g' v Hb. split; [exact (pcg_threshold_spec bound Hb)|].
  split; [apply pcg_bounded_no_divzero; apply Hb|]. exact (pcg_bounded_spec fuel g bound g' v Hb).
Qed.
