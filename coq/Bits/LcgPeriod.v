(* Full period of the linear congruential generator x -> (a*x + c) mod 2^k for a = 1 (mod 4), c odd:
   the orbit of every x visits every residue within 2^k steps.
   Route: f^n(x) = a^n x + c S_n with S_n = 1 + a + ... + a^(n-1);  a^n - 1 = (a-1) S_n, hence
   f^n(x) = x + u S_n (mod 2^k) with u = (a-1) x + c odd;  S_(2m) = S_m (1 + a^m) with 1 + a^m = 2 (mod 4),
   hence S_(2^k) = 2^k * odd  (v2 (S_(2^k)) = k exactly);  hence, by induction on k, n -> u S_n hits
   every residue mod 2^k for some n < 2^k (if n0 is right mod 2^k but wrong mod 2^(k+1), n0 + 2^k is right).
   2^k stays abstract; iteration counts are nat but are never computed. *)
From Coq Require Import ZArith Lia Arith.
Local Open Scope Z_scope.

Fixpoint pw (a : Z) (n : nat) : Z := match n with O => 1 | S m => a * pw a m end.       (* a^n *)
Fixpoint gs (a : Z) (n : nat) : Z := match n with O => 0 | S m => 1 + a * gs a m end.   (* S_n *)
Definition p2 (k : nat) : Z := 2 ^ Z.of_nat k.

Lemma p2_S : forall k, p2 (S k) = 2 * p2 k.
Proof. intro k. unfold p2. rewrite Nat2Z.inj_succ, Z.pow_succ_r by lia. reflexivity. Qed.
Lemma p2_pos : forall k, 0 < p2 k.
Proof. intro k. unfold p2. apply Z.pow_pos_nonneg; lia. Qed.
Lemma p2_nat : forall k, Z.of_nat (2 ^ k) = p2 k.
Proof. intro k. unfold p2. rewrite Nat2Z.inj_pow. reflexivity. Qed.

Lemma pw_add : forall a n m, pw a (n + m) = pw a n * pw a m.
Proof. intros a n m. induction n as [|n IH]; cbn [pw Nat.add]; [lia|]. rewrite IH. ring. Qed.

Lemma gs_add : forall a n m, gs a (n + m) = gs a n + pw a n * gs a m.
Proof. intros a n m. induction n as [|n IH]; cbn [gs pw Nat.add]; [lia|]. rewrite IH. ring. Qed.

Lemma pw_minus_1 : forall a n, pw a n - 1 = (a - 1) * gs a n.
Proof.
  intros a n. induction n as [|n IH]; cbn [gs pw]; [ring|].
  replace (a * pw a n - 1) with (a * (pw a n - 1) + (a - 1)) by ring. rewrite IH. ring.
Qed.

Lemma gs_double : forall a m, gs a (m + m) = gs a m * (1 + pw a m).
Proof. intros a m. rewrite gs_add. ring. Qed.

(* a = 1 (mod 4) => a^n = 1 (mod 4) *)
Lemma pw_1_mod_4 : forall s n, exists r, pw (4 * s + 1) n = 4 * r + 1.
Proof.
  intros s n. induction n as [|n [r IH]]; cbn [pw].
  - exists 0. reflexivity.
  - exists (4 * s * r + s + r). rewrite IH. ring.
Qed.

(* v2 (S_(2^k)) = k : S_(2^k) = 2^k * odd *)
Lemma gs_pow2 : forall s k, exists q, gs (4 * s + 1) (2 ^ k) = p2 k * (2 * q + 1).
Proof.
  intros s k. induction k as [|k [q IH]].
  - exists 0. change (2 ^ 0)%nat with 1%nat. cbn [gs]. unfold p2. change (2 ^ Z.of_nat 0) with 1. ring.
  - replace (2 ^ S k)%nat with (2 ^ k + 2 ^ k)%nat by (cbn [Nat.pow]; lia).
    rewrite gs_double, IH. destruct (pw_1_mod_4 s (2 ^ k)) as [r Hr]. rewrite Hr, p2_S.
    exists (2 * q * r + q + r). ring.
Qed.

(* n -> u * S_n hits every residue mod 2^k within 2^k steps, for odd u *)
Lemma gs_surjective : forall s w k t, exists n z,
  Z.of_nat n < p2 k /\ (2 * w + 1) * gs (4 * s + 1) n - t = p2 k * z.
Proof.
  intros s w k. induction k as [|k IH]; intro t.
  - exists 0%nat, (- t). split; [reflexivity|]. cbn [gs]. unfold p2. change (2 ^ Z.of_nat 0) with 1. ring.
  - destruct (IH t) as (n0 & z & Hn0 & Hz). rewrite p2_S.
    destruct (Z.Even_or_Odd z) as [[z' ->]|[z' ->]].
    + exists n0, z'. split; [pose proof (p2_pos k); lia|]. rewrite Hz. ring.
    + destruct (gs_pow2 s k) as [q Hq]. destruct (pw_1_mod_4 s n0) as [r Hr].
      exists (n0 + 2 ^ k)%nat, (z' + 1 + (w * (4 * r + 1) * (2 * q + 1) + 2 * r * (2 * q + 1) + q)).
      split; [rewrite Nat2Z.inj_add, p2_nat; lia|].
      rewrite gs_add, Hq, Hr.
      replace ((2 * w + 1) * (gs (4 * s + 1) n0 + (4 * r + 1) * (p2 k * (2 * q + 1))) - t)
        with (((2 * w + 1) * gs (4 * s + 1) n0 - t) + (2 * w + 1) * (4 * r + 1) * (2 * q + 1) * p2 k) by ring.
      rewrite Hz. ring.
Qed.

(* ---- the generator ---- *)
Section Lcg.
Variables (a c : Z) (k : nat).
Definition lcg (x : Z) : Z := (a * x + c) mod p2 k.
Fixpoint lcg_iter (n : nat) (x : Z) : Z := match n with O => x | S m => lcg (lcg_iter m x) end.

Lemma lcg_iter_closed : forall n x, lcg_iter n x mod p2 k = (pw a n * x + c * gs a n) mod p2 k.
Proof.
  pose proof (p2_pos k) as Hp. intros n x. induction n as [|n IH]; cbn [lcg_iter pw gs].
  - f_equal. ring.
  - unfold lcg. rewrite Z.mod_mod by lia.
    rewrite <- Z.add_mod_idemp_l, <- Z.mul_mod_idemp_r, IH, Z.mul_mod_idemp_r, Z.add_mod_idemp_l by lia.
    f_equal. ring.
Qed.

Lemma lcg_iter_range : forall n x, 0 <= x < p2 k -> 0 <= lcg_iter n x < p2 k.
Proof.
  pose proof (p2_pos k) as Hp. intros [|n] x Hx; cbn [lcg_iter]; [exact Hx|]. unfold lcg. apply Z.mod_pos_bound. lia.
Qed.

Hypothesis Ha : a mod 4 = 1.
Hypothesis Hc : c mod 2 = 1.

(* FULL PERIOD: from every x every residue y is reached within 2^k steps *)
Theorem lcg_full_period : forall x y, 0 <= x < p2 k -> 0 <= y < p2 k ->
  exists n, Z.of_nat n < p2 k /\ lcg_iter n x = y.
Proof.
  pose proof (p2_pos k) as Hp. intros x y Hx Hy.
  assert (Ea : exists s, a = 4 * s + 1) by (exists (a / 4); pose proof (Z.div_mod a 4); lia).
  assert (Ec : exists c', c = 2 * c' + 1) by (exists (c / 2); pose proof (Z.div_mod c 2); lia).
  destruct Ea as [s Ea]. destruct Ec as [c' Ec].
  destruct (gs_surjective s (2 * s * x + c') k (y - x)) as (n & z & Hn & Hz).
  exists n. split; [exact Hn|].
  pose proof (lcg_iter_range n x Hx) as Hr.
  rewrite <- (Z.mod_small _ _ Hr), <- (Z.mod_small _ _ Hy), lcg_iter_closed.
  rewrite <- Ea in Hz.
  assert (E : pw a n * x + c * gs a n = y + z * p2 k).
  { replace (pw a n * x + c * gs a n) with (x + ((pw a n - 1) * x + c * gs a n)) by ring.
    rewrite pw_minus_1. remember (gs a n) as G eqn:EG. clear EG.
    replace (a - 1) with (4 * s) by lia. rewrite Ec. lia. }
  rewrite E. apply Z.mod_add. lia.
Qed.
End Lcg.
