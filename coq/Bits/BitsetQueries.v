(* count / any / all / none / == : the word-level loops agree with the bit-level definitions.  These
   are the operations that silently rely on the padding bits being zero. *)
From Coq Require Import List NArith Arith Bool Lia ZArith ZifyBool ZifyNat ZifyN.
From FV Require Import Bits.BitsetModel Bits.BitsetBase Bits.BitsetProofs.
Import ListNotations.
Local Open Scope N_scope.
Ltac Zify.zify_post_hook ::= Z.div_mod_to_equations.

Definition indices (n : N) : list N := map N.of_nat (seq 0 (N.to_nat n)).
Definition count_spec (n : N) (f : N -> bool) : N := N.of_nat (length (filter f (indices n))).

Lemma in_indices : forall n i, In i (indices n) <-> i < n.
Proof.
  intros n i. unfold indices. rewrite in_map_iff. split.
  - intros (k & <- & Hk). apply in_seq in Hk. lia.
  - intro H. exists (N.to_nat i). split; [lia|]. apply in_seq. lia.
Qed.

(* ---- accumulating loops ------------------------------------------------------------------- *)
Lemma foldM_rd_acc : forall {A} (h : A -> N -> A) ws k a v0, (a + k <= length ws)%nat ->
  foldM (fun v i => w <- rd ws i ;; Ok (h v w)) (seq a k) v0 =
  Ok (fold_left (fun v i => h v (nth i ws 0)) (seq a k) v0).
Proof.
  intros A h ws. induction k as [|k IH]; intros a v0 H; cbn [seq foldM fold_left]; [reflexivity|].
  rewrite rd_ok by lia. cbn [bind]. apply IH. lia.
Qed.

Lemma fold_left_orb : forall {X} (P : X -> bool) l v0,
  fold_left (fun v i => v || P i) l v0 = v0 || existsb P l.
Proof.
  intros X P. induction l as [|x r IH]; intro v0; cbn [fold_left existsb]; [now rewrite orb_false_r|].
  rewrite IH. now rewrite orb_assoc.
Qed.

Lemma fold_left_andb : forall {X} (P : X -> bool) l v0,
  fold_left (fun v i => v && P i) l v0 = v0 && forallb P l.
Proof.
  intros X P. induction l as [|x r IH]; intro v0; cbn [fold_left forallb]; [now rewrite andb_true_r|].
  rewrite IH. now rewrite andb_assoc.
Qed.

Lemma widx_nwords : forall n, 1 <= n ->
  (n mod 64 = 0 /\ nwords n = widx n) \/ (n mod 64 <> 0 /\ nwords n = S (widx n)).
Proof. intros n H. unfold nwords, widx. destruct (N.eq_dec (n mod 64) 0); [left|right]; lia. Qed.

Section Queries.
Variables (n : N) (ws : list N).
Hypothesis Hn : 1 <= n.
Hypothesis Hwf : wf n ws.

Let O : words_ok ws := wf_words_ok _ _ Hwf.
Let L : length ws = nwords n := proj1 Hwf.
Let P : forall i, n <= i -> bit ws i = false := proj2 (proj2 Hwf).

Lemma word_bit : forall j b, b < 64 -> N.testbit (nth j ws 0) b = bit ws (64 * N.of_nat j + b).
Proof. intros j b Hb. now rewrite bit_word. Qed.

(* a non-zero word has a set bit below N *)
Lemma word_nonzero : forall j, nth j ws 0 <> 0 -> exists i, i < n /\ N.to_nat (i / 64) = j /\ bit ws i = true.
Proof.
  intros j Hz.
  assert (T : N.testbit (nth j ws 0) (N.log2 (nth j ws 0)) = true) by (apply N.bit_log2; exact Hz).
  remember (N.log2 (nth j ws 0)) as b eqn:Eb. clear Eb.
  assert (Hb : b < 64). { destruct (N.ltb_spec b 64); [assumption|]. rewrite (O j b) in T by assumption. discriminate. }
  exists (64 * N.of_nat j + b). rewrite word_bit in T by exact Hb.
  split; [|split; [lia|exact T]].
  destruct (N.ltb_spec (64 * N.of_nat j + b) n); [assumption|]. rewrite P in T by assumption. discriminate.
Qed.

Lemma word_zero_bits : forall j, nth j ws 0 = 0 -> forall i, N.to_nat (i / 64) = j -> bit ws i = false.
Proof. intros j Hz i <-. unfold bit, wbit. rewrite Hz. apply N.bits_0. Qed.

(* ---- any / none ---- *)
Lemma any_words_bits :
  existsb (fun j => negb (nth j ws 0 =? 0)) (seq 0 (nwords n)) = existsb (bit ws) (indices n).
Proof.
  apply eq_true_iff_eq. rewrite !existsb_exists. split.
  - intros (j & Hj & Hw). destruct (N.eqb_spec (nth j ws 0) 0) as [|Hz]; [discriminate|].
    destruct (word_nonzero j Hz) as (i & Hi & _ & B). exists i. split; [now apply in_indices|exact B].
  - intros (i & Hi & B). apply in_indices in Hi. exists (N.to_nat (i / 64)). split.
    + apply in_seq. pose proof (nwords_bound n i Hi). lia.
    + destruct (N.eqb_spec (nth (N.to_nat (i / 64)) ws 0) 0) as [Hz|]; [|reflexivity].
      rewrite (word_zero_bits _ Hz i eq_refl) in B. discriminate.
Qed.

Lemma seq_nwords : forall (Pw : nat -> bool) (c : bool -> bool -> bool),
  (n mod 64 = 0 -> nwords n = widx n) -> True.
Proof. auto. Qed.

Theorem bany_spec : bany n ws = Ok (existsb (bit ws) (indices n)).
Proof.
  unfold bany. rewrite foldM_rd_acc by (rewrite L; unfold widx, nwords; lia). cbn [bind].
  rewrite (fold_left_orb (fun i => negb (nth i ws 0 =? 0))). cbn [orb].
  rewrite <- any_words_bits.
  destruct (widx_nwords n Hn) as [(Hm & E)|(Hm & E)]; rewrite E.
  - replace (n mod 64 =? 0) with true by lia. reflexivity.
  - replace (n mod 64 =? 0) with false by lia. rewrite rd_ok by lia. cbn [bind].
    rewrite seq_S, existsb_app. cbn [existsb Nat.add]. now rewrite orb_false_r.
Qed.

Lemma land_ones_last : N.land (nth (widx n) ws 0) (N.ones (n mod 64)) = nth (widx n) ws 0.
Proof.
  apply N.bits_inj. intro b. rewrite N.land_spec, ones_bit.
  destruct (N.ltb_spec b (n mod 64)) as [H|H]; [apply andb_true_r|]. rewrite andb_false_r. symmetry.
  destruct (N.ltb_spec b 64) as [Hb|Hb]; [|now apply O].
  rewrite word_bit by exact Hb. apply P. unfold widx. lia.
Qed.

Theorem bnone_spec : bnone n ws = Ok (negb (existsb (bit ws) (indices n))).
Proof.
  unfold bnone. rewrite foldM_rd_acc by (rewrite L; unfold widx, nwords; lia). cbn [bind].
  rewrite (fold_left_andb (fun i => nth i ws 0 =? 0)). cbn [andb].
  rewrite <- any_words_bits.
  assert (Hneg : forall l, forallb (fun i => nth i ws 0 =? 0) l = negb (existsb (fun j => negb (nth j ws 0 =? 0)) l)).
  { induction l as [|x r IH]; cbn [forallb existsb]; [reflexivity|]. rewrite IH.
    destruct (nth x ws 0 =? 0); reflexivity. }
  destruct (widx_nwords n Hn) as [(Hm & E)|(Hm & E)]; rewrite E.
  - replace (n mod 64 =? 0) with true by lia. now rewrite Hneg.
  - replace (n mod 64 =? 0) with false by lia. rewrite rd_ok by lia. cbn [bind].
    rewrite land_ones_last, seq_S, existsb_app, Hneg. cbn [existsb Nat.add].
    rewrite orb_false_r, negb_orb, negb_involutive. reflexivity.
Qed.

(* ---- all ---- *)
Theorem ball_spec : ball n ws = Ok (forallb (bit ws) (indices n)).
Proof.
  unfold ball. rewrite foldM_rd_acc by (rewrite L; unfold widx, nwords; lia). cbn [bind].
  rewrite (fold_left_andb (fun i => nth i ws 0 =? mask64)). cbn [andb].
  assert (Hfull : forallb (fun i => nth i ws 0 =? mask64) (seq 0 (widx n)) = true <->
                  forall i, i < 64 * N.of_nat (widx n) -> bit ws i = true).
  { rewrite forallb_forall. split.
    - intros H i Hi. specialize (H (N.to_nat (i / 64))).
      rewrite in_seq in H. specialize (H ltac:(lia)). apply N.eqb_eq in H.
      unfold bit, wbit. rewrite H, mask64_ones, ones_bit. lia.
    - intros H j Hj. apply in_seq in Hj. apply N.eqb_eq. apply N.bits_inj. intro b.
      rewrite mask64_ones, ones_bit. destruct (N.ltb_spec b 64) as [Hb|Hb]; [|now apply O].
      rewrite word_bit by exact Hb. apply H. lia. }
  assert (Hlast : n mod 64 <> 0 -> (nth (widx n) ws 0 =? N.ones (n mod 64)) = true <->
                  forall i, 64 * N.of_nat (widx n) <= i < n -> bit ws i = true).
  { intro Hm. rewrite N.eqb_eq. split.
    - intros H i Hi. unfold bit, wbit. replace (N.to_nat (i / 64)) with (widx n) by (unfold widx in *; lia).
      rewrite H, ones_bit. unfold widx in Hi. lia.
    - intro H. apply N.bits_inj. intro b. rewrite ones_bit.
      destruct (N.ltb_spec b 64) as [Hb|Hb].
      + rewrite word_bit by exact Hb. destruct (N.ltb_spec b (n mod 64)).
        * apply H. unfold widx. lia.
        * apply P. unfold widx. lia.
      + rewrite (O _ b Hb). lia. }
  assert (Hspec : forallb (bit ws) (indices n) = true <-> forall i, i < n -> bit ws i = true).
  { rewrite forallb_forall. split; intros H i Hi; apply H; now apply in_indices. }
  destruct (N.eqb_spec (n mod 64) 0) as [Hm|Hm].
  - f_equal. apply eq_true_iff_eq. rewrite Hspec, Hfull.
    unfold widx. split; intros H i Hi; apply H; lia.
  - rewrite rd_ok by (rewrite L; destruct (widx_nwords n Hn) as [(?&?)|(?&E)]; lia). cbn [bind].
    f_equal. apply eq_true_iff_eq. rewrite Hspec, andb_true_iff, Hfull, (Hlast Hm). split.
    + intros [H1 H2] i Hi. destruct (N.lt_ge_cases i (64 * N.of_nat (widx n))); [now apply H1|apply H2; lia].
    + intro H. split; intros i Hi; apply H; unfold widx in *; lia.
Qed.

(* ---- == ---- *)
Variable rhs : list N.
Hypothesis Hwr : wf n rhs.
Let Or : words_ok rhs := wf_words_ok _ _ Hwr.
Let Lr : length rhs = nwords n := proj1 Hwr.
Let Pr : forall i, n <= i -> bit rhs i = false := proj2 (proj2 Hwr).

Lemma eq_loop_spec : forall k a, (a + k <= nwords n)%nat ->
  eq_loop ws rhs (seq a k) = Ok (forallb (fun j => nth j ws 0 =? nth j rhs 0) (seq a k)).
Proof.
  induction k as [|k IH]; intros a H; cbn [seq eq_loop forallb]; [reflexivity|].
  rewrite !rd_ok by lia. cbn [bind]. destruct (nth a ws 0 =? nth a rhs 0); cbn [andb]; [|reflexivity].
  apply IH. lia.
Qed.

Theorem beq_spec : beq ws rhs = Ok (forallb (fun i => Bool.eqb (bit ws i) (bit rhs i)) (indices n)).
Proof.
  unfold beq. pose proof (nwords_pos n Hn) as Hpos.
  rewrite eq_loop_spec by lia. cbn [bind].
  assert (E : (if forallb (fun j => nth j ws 0 =? nth j rhs 0) (seq 0 (length ws - 1))
               then a <- rd ws (length ws - 1) ;; b <- rd rhs (length ws - 1) ;; Ok (a =? b) else Ok false) =
              Ok (forallb (fun j => nth j ws 0 =? nth j rhs 0) (seq 0 (nwords n)))).
  { replace (nwords n) with (S (length ws - 1)) by lia. rewrite seq_S, forallb_app. cbn [forallb Nat.add].
    rewrite !rd_ok by lia. cbn [bind]. rewrite andb_true_r.
    destruct (forallb _ (seq 0 (length ws - 1))); reflexivity. }
  rewrite E. f_equal. apply eq_true_iff_eq. rewrite !forallb_forall. split.
  - intros H i Hi. apply in_indices in Hi. apply eqb_true_iff.
    specialize (H (N.to_nat (i / 64))). rewrite in_seq in H.
    pose proof (nwords_bound n i Hi). specialize (H ltac:(lia)). apply N.eqb_eq in H.
    unfold bit, wbit. now rewrite H.
  - intros H j Hj. apply in_seq in Hj. apply N.eqb_eq. apply N.bits_inj. intro b.
    destruct (N.ltb_spec b 64) as [Hb|Hb].
    + rewrite word_bit by exact Hb. fold (wbit rhs j b). rewrite <- (bit_word rhs j b Hb).
      destruct (N.ltb_spec (64 * N.of_nat j + b) n) as [Hi|Hi].
      * apply eqb_true_iff. apply H. now apply in_indices.
      * now rewrite P, Pr.
    + now rewrite (O j b Hb), (Or j b Hb).
Qed.
End Queries.
