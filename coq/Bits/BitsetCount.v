(* count(): the sum of the word popcounts is the number of set bits below N. *)
From Coq Require Import List NArith Arith Bool Lia ZArith ZifyBool ZifyNat ZifyN.
From FV Require Import Bits.BitsetModel Bits.BitsetBase Bits.BitsetProofs Bits.BitsetQueries.
Import ListNotations.
Local Open Scope N_scope.
Ltac Zify.zify_post_hook ::= Z.div_mod_to_equations.

(* number of k in [a, a+len) with f k *)
Definition cnt (f : nat -> bool) (a len : nat) : nat := length (filter f (seq a len)).

Lemma cnt_app : forall f a k1 k2, cnt f a (k1 + k2) = (cnt f a k1 + cnt f (a + k1) k2)%nat.
Proof. intros. unfold cnt. now rewrite seq_app, filter_app, app_length. Qed.

Lemma cnt_ext : forall f g a len, (forall k, (a <= k < a + len)%nat -> f k = g k) -> cnt f a len = cnt g a len.
Proof.
  intros f g a len H. unfold cnt. f_equal. apply filter_ext_in. intros k Hk. apply H. now apply in_seq.
Qed.

Lemma cnt_false : forall f a len, (forall k, (a <= k < a + len)%nat -> f k = false) -> cnt f a len = 0%nat.
Proof.
  intros f a len H. rewrite (cnt_ext f (fun _ => false)) by exact H.
  unfold cnt. induction (seq a len) as [|x r IH]; cbn [filter]; auto.
Qed.

Lemma seq_add_map : forall len a, seq a len = map (Nat.add a) (seq 0 len).
Proof.
  induction len as [|len IH]; intro a; [reflexivity|].
  cbn [seq map]. rewrite Nat.add_0_r. f_equal.
  rewrite <- (seq_shift len 0), map_map, (IH (S a)). apply map_ext. intro k. lia.
Qed.

Lemma filter_map_length : forall {X Y} (f : Y -> bool) (g : X -> Y) l,
  length (filter f (map g l)) = length (filter (fun x => f (g x)) l).
Proof.
  intros X Y f g. induction l as [|x r IH]; cbn [map filter]; [reflexivity|].
  destruct (f (g x)); cbn [length]; now rewrite IH.
Qed.

Lemma cnt_shift : forall f a len, cnt f a len = cnt (fun k => f (a + k)%nat) 0 len.
Proof. intros f a len. unfold cnt. now rewrite (seq_add_map len a), filter_map_length. Qed.

Lemma popcount_div2 : forall w, popcount w = popcount (N.div2 w) + b2n (N.odd w).
Proof. intros [|[p|p|]]; cbn; try reflexivity; lia. Qed.

Lemma popcount_cnt : forall k w, w < 2 ^ N.of_nat k ->
  N.to_nat (popcount w) = cnt (fun i => N.testbit w (N.of_nat i)) 0 k.
Proof.
  induction k as [|k IH]; intros w Hw.
  - assert (w = 0) by (cbn in Hw; lia). subst. reflexivity.
  - rewrite popcount_div2. change (S k) with (1 + k)%nat. rewrite cnt_app.
    assert (Hd : N.div2 w < 2 ^ N.of_nat k).
    { rewrite N.div2_div. apply N.div_lt_upper_bound; [discriminate|].
      rewrite <- N.pow_succ_r'. now rewrite <- Nat2N.inj_succ. }
    rewrite N2Nat.inj_add, (IH _ Hd).
    rewrite (cnt_shift _ (0 + 1)%nat).
    rewrite (cnt_ext (fun k0 => N.testbit w (N.of_nat (0 + 1 + k0))) (fun i => N.testbit (N.div2 w) (N.of_nat i))).
    2:{ intros i _. rewrite <- N.testbit_succ_r_div2 by lia. f_equal. lia. }
    unfold cnt at 2. cbn [seq filter]. change (N.of_nat 0) with 0. rewrite N.bit0_odd.
    destruct (N.odd w); cbn [b2n length]; lia.
Qed.

Section Count.
Variables (n : N) (ws : list N).
Hypothesis Hn : 1 <= n.
Hypothesis Hwf : wf n ws.
Let O : words_ok ws := wf_words_ok _ _ Hwf.
Let L : length ws = nwords n := proj1 Hwf.
Let P : forall i, n <= i -> bit ws i = false := proj2 (proj2 Hwf).

Let fb (k : nat) : bool := bit ws (N.of_nat k).

Lemma word_cnt : forall j, N.to_nat (popcount (nth j ws 0)) = cnt fb (64 * j) 64.
Proof.
  intro j. rewrite (popcount_cnt 64) by (apply lt_word_ok; apply O).
  rewrite (cnt_shift fb). apply cnt_ext. intros k Hk. unfold fb.
  replace (N.of_nat (64 * j + k)) with (64 * N.of_nat j + N.of_nat k) by lia.
  rewrite bit_word by lia. reflexivity.
Qed.

Lemma sum_words : forall k,
  N.to_nat (fold_left (fun c i => c + popcount (nth i ws 0)) (seq 0 k) 0) = cnt fb 0 (64 * k).
Proof.
  induction k as [|k IH]; [reflexivity|].
  rewrite seq_S, fold_left_app. cbn [fold_left Nat.add].
  rewrite N2Nat.inj_add, IH, word_cnt.
  replace (64 * S k)%nat with (64 * k + 64)%nat by lia. now rewrite cnt_app.
Qed.

Theorem count_spec_ok : count ws = Ok (count_spec n (bit ws)).
Proof.
  unfold count. pose proof (nwords_pos n Hn) as Hpos.
  rewrite foldM_rd_acc by lia. cbn [bind]. rewrite rd_ok by lia. cbn [bind]. f_equal.
  assert (E : fold_left (fun c i => c + popcount (nth i ws 0)) (seq 0 (length ws - 1)) 0 +
              popcount (nth (length ws - 1) ws 0) =
              fold_left (fun c i => c + popcount (nth i ws 0)) (seq 0 (length ws)) 0).
  { replace (length ws) with (S (length ws - 1)) at 3 by lia. rewrite seq_S, fold_left_app. reflexivity. }
  rewrite E. apply N2Nat.inj. rewrite sum_words. unfold count_spec. rewrite Nat2N.id.
  unfold indices. 
  assert (Hmap : forall l, length (filter (bit ws) (map N.of_nat l)) = length (filter fb l)).
  { induction l as [|x r IH]; cbn [map filter]; [reflexivity|]. unfold fb at 1.
    destruct (bit ws (N.of_nat x)); cbn [length]; now rewrite IH. }
  rewrite Hmap. fold (cnt fb 0 (N.to_nat n)).
  replace (64 * length ws)%nat with (N.to_nat n + (64 * length ws - N.to_nat n))%nat
    by (rewrite L; unfold nwords; lia).
  rewrite cnt_app, (cnt_false fb (0 + N.to_nat n)); [lia|].
  intros k Hk. unfold fb. apply P. lia.
Qed.
End Count.
