(* Executable model of frg::insertion_sort (include/frg/algorithm.hpp) and of frg::array
   (include/frg/array.hpp).  Definitions only.

     for (i = begin; i < end; ++i) { j = i; ++j; for (; j < end; ++j) if (comp( *i, *j )) swap( *i, *j ); }

   The list is the range [i, end): its head is *i, the inner loop walks j over the tail and a swap
   exchanges the head with the element under j.  [inner x rest] returns the final *i and the tail
   as the inner loop leaves it; the outer loop then continues on that tail.  The elements before i
   are never touched again.  [isort_idx] is the same double loop written with indices and
   nth/upd over the whole list (the literal reading); both are extracted and compared with the
   real code, and proved equal in SortProofs.v (isort_idx_eq). *)
From Coq Require Import List Arith Bool.
Import ListNotations.

Section Sort.
Context {A : Type}.
Variable comp : A -> A -> bool.

Fixpoint inner (x : A) (rest : list A) : A * list A :=
  match rest with
  | [] => (x, [])
  | y :: r => if comp x y then let (x', r') := inner y r in (x', x :: r')
              else let (x', r') := inner x r in (x', y :: r')
  end.

Fixpoint isort_n (n : nat) (l : list A) : list A :=
  match n, l with
  | S n', x :: r => let (x', r') := inner x r in x' :: isort_n n' r'
  | _, _ => l
  end.
Definition insertion_sort (l : list A) : list A := isort_n (length l) l.

(* literal index version *)
Variable d : A.
Fixpoint upd (l : list A) (i : nat) (v : A) : list A :=
  match l, i with
  | [], _ => []
  | _ :: r, O => v :: r
  | x :: r, S j => x :: upd r j v
  end.
Definition swap (l : list A) (i j : nat) : list A := upd (upd l i (nth j l d)) j (nth i l d).
Definition inner_idx (l : list A) (i : nat) : list A :=
  fold_left (fun l j => if comp (nth i l d) (nth j l d) then swap l i j else l)
            (seq (S i) (length l - S i)) l.
Definition isort_idx (l : list A) : list A :=
  fold_left inner_idx (seq 0 (length l)) l.
End Sort.

(* ---- frg::array<T,N> as a list of length N -------------------------------------------------- *)
Section Array.
Context {A : Type}.
Variable d : A.
Definition arr_index (l : list A) (i : nat) : option A := nth_error l i.   (* None = outside _stor *)
Definition arr_front (l : list A) : option A := arr_index l 0.             (* _stor[0]   *)
Definition arr_back (l : list A) : option A := arr_index l (length l - 1). (* _stor[N-1] after fix D20 *)
Definition arr_iter (l : list A) : list A := l.                            (* [begin(), end()) *)
Definition arr_concat (ls : list (list A)) : list A :=                     (* array_concat: res{} then concat_insert *)
  fold_left (fun acc l => acc ++ l) ls [].
(* bool operator==(const array &) const = default: memberwise == on _stor, i.e. element by element with
   the ELEMENT TYPE's own operator== (which need not be reflexive: NaN; nor bitwise: -0.0 == +0.0, padding). *)
Variable eqA : A -> A -> bool.
Fixpoint arr_eqb (l1 l2 : list A) : bool :=
  match l1, l2 with
  | [], [] => true
  | x :: r, y :: s => eqA x y && arr_eqb r s
  | _, _ => false
  end.
Definition arr_neb (l1 l2 : list A) : bool := negb (arr_eqb l1 l2).        (* != is synthesized from == *)
End Array.
