(* Bit-level specification of bitset<N> (the std::bitset reading: a function from [0,N) to bool)
   and the proofs that the word-level model refines it, keeps the padding zero and stays inside
   the word array. *)
From Coq Require Import List NArith Arith Bool Lia ZArith ZifyBool ZifyNat ZifyN.
From FV Require Import Bits.BitsetModel Bits.BitsetBase.
Import ListNotations.
Local Open Scope N_scope.
Ltac Zify.zify_post_hook ::= Z.div_mod_to_equations.

(* bit i of the set = bit (i mod 64) of word (i / 64); words outside the array read as 0 *)
Definition wbit (ws : list N) (j : nat) (b : N) : bool := N.testbit (nth j ws 0) b.
Definition bit (ws : list N) (i : N) : bool := wbit ws (N.to_nat (i / 64)) (i mod 64).

(* representation invariant: buffer_size words, each a uint64_t, no bit at or beyond N *)
Definition wf (n : N) (ws : list N) : Prop :=
  length ws = nwords n /\ Forall (fun w => w < 2 ^ 64) ws /\ (forall i, n <= i -> bit ws i = false).

Definition words_ok (ws : list N) : Prop := forall j, word_ok (nth j ws 0).

Lemma words_ok_Forall : forall ws, Forall (fun w => w < 2 ^ 64) ws <-> words_ok ws.
Proof.
  intro ws. split.
  - intros H j. destruct (Nat.lt_ge_cases j (length ws)) as [L|L].
    + apply word_ok_lt. rewrite Forall_forall in H. apply H. now apply nth_In.
    + rewrite nth_overflow by exact L. apply word_ok_0.
  - intro H. apply Forall_forall. intros w Hw. apply (In_nth _ _ 0) in Hw.
    destruct Hw as (j & _ & <-). apply lt_word_ok. apply H.
Qed.

Lemma bit_word : forall ws j b, b < 64 -> bit ws (64 * N.of_nat j + b) = wbit ws j b.
Proof.
  intros ws j b Hb. unfold bit.
  replace (N.to_nat ((64 * N.of_nat j + b) / 64)) with j by lia.
  replace ((64 * N.of_nat j + b) mod 64) with b by lia. reflexivity.
Qed.

Lemma bit_beyond : forall ws i, 64 * N.of_nat (length ws) <= i -> bit ws i = false.
Proof.
  intros ws i H. unfold bit, wbit. rewrite nth_overflow by lia. apply N.bits_0.
Qed.

Lemma nwords_pos : forall n, 1 <= n -> (1 <= nwords n)%nat.
Proof. intros n H. unfold nwords. lia. Qed.

Lemma nwords_bound : forall n i, i < n -> (N.to_nat (i / 64) < nwords n)%nat.
Proof. intros n i H. unfold nwords. lia. Qed.

(* two states with the same length and the same bits are equal when their words are uint64 *)
Lemma nth_ext_bits : forall ws ws' : list N,
  length ws = length ws' -> words_ok ws -> words_ok ws' ->
  (forall j b, b < 64 -> wbit ws j b = wbit ws' j b) -> ws = ws'.
Proof.
  intros ws ws' L O O' H. apply (nth_ext _ _ 0 0 L). intros j _.
  apply N.bits_inj. intro b. destruct (N.ltb_spec b 64) as [Hb|Hb].
  - apply H. exact Hb.
  - rewrite (O j b Hb), (O' j b Hb). reflexivity.
Qed.

(* ---- mask_last_bit -------------------------------------------------------------------------- *)
Lemma mask_last_bit_spec : forall n ws,
  1 <= n -> length ws = nwords n -> words_ok ws ->
  exists ws', mask_last_bit n ws = Ok ws' /\ length ws' = nwords n /\ words_ok ws' /\
    forall i, bit ws' i = (i <? n) && bit ws i.
Proof.
  intros n ws Hn L O. unfold mask_last_bit.
  destruct (N.eqb_spec (n mod 64) 0) as [Hm|Hm].
  - exists ws. repeat split; auto. intro i.
    destruct (N.ltb_spec i n) as [Hi|Hi]; [reflexivity|]. cbn [andb].
    apply bit_beyond. rewrite L. unfold nwords. lia.
  - assert (Hw : (widx n < length ws)%nat) by (rewrite L; unfold widx, nwords; lia).
    rewrite rd_ok by exact Hw. cbn [bind]. rewrite wr_ok by exact Hw.
    eexists. split; [reflexivity|]. split; [now rewrite upd_length|]. split.
    + intros j b Hb. rewrite nth_upd by exact Hw. destruct (Nat.eqb j (widx n)); [|now apply O].
      rewrite N.land_spec. rewrite (O _ b Hb). reflexivity.
    + intro i. unfold bit, wbit. rewrite nth_upd by exact Hw.
      destruct (Nat.eqb_spec (N.to_nat (i / 64)) (widx n)) as [E|E].
      * rewrite N.land_spec, ones_bit. rewrite E.
        replace (i <? n) with (i mod 64 <? n mod 64) by (unfold widx in E; lia).
        apply andb_comm.
      * destruct (N.ltb_spec i n) as [Hi|Hi]; [reflexivity|]. cbn [andb].
        rewrite nth_overflow; [apply N.bits_0|]. rewrite L. unfold widx, nwords in *. lia.
Qed.

Lemma wf_intro : forall n ws ws0, length ws = nwords n -> words_ok ws ->
  (forall i, bit ws i = (i <? n) && bit ws0 i) -> wf n ws.
Proof.
  intros n ws ws0 L O B. split; [exact L|]. split; [now apply words_ok_Forall|].
  intros i Hi. rewrite B. destruct (N.ltb_spec i n); [lia|reflexivity].
Qed.

Lemma wf_words_ok : forall n ws, wf n ws -> words_ok ws.
Proof. intros n ws (_ & F & _). now apply words_ok_Forall. Qed.

(* ---- whole-set operations ------------------------------------------------------------------- *)
Lemma nth_map_const : forall (ws : list N) (c : N) j,
  nth j (map (fun _ => c) ws) 0 = if (j <? length ws)%nat then c else 0.
Proof.
  induction ws as [|w r IH]; intros c [|j]; cbn [map nth length]; auto.
  rewrite IH. reflexivity.
Qed.

Lemma reset_all_spec : forall n ws, 1 <= n -> wf n ws ->
  wf n (reset_all ws) /\ forall i, bit (reset_all ws) i = false.
Proof.
  intros n ws Hn (L & F & P).
  assert (B : forall i, bit (reset_all ws) i = false).
  { intro i. unfold bit, wbit, reset_all. rewrite nth_map_const.
    destruct (_ <? _)%nat; apply N.bits_0. }
  split; [|exact B]. split; [unfold reset_all; now rewrite map_length|]. split.
  - unfold reset_all. apply Forall_forall. intros w Hw. apply in_map_iff in Hw.
    destruct Hw as (_ & <- & _). reflexivity.
  - intros i _. apply B.
Qed.

Lemma set_all_spec : forall n ws, 1 <= n -> wf n ws ->
  exists ws', set_all n ws = Ok ws' /\ wf n ws' /\ forall i, i < n -> bit ws' i = true.
Proof.
  intros n ws Hn (L & F & P). unfold set_all.
  destruct (mask_last_bit_spec n (map (fun _ => mask64) ws) Hn) as (ws' & E & L' & O' & B).
  - now rewrite map_length.
  - intros j b Hb. rewrite nth_map_const. destruct (_ <? _)%nat; [|apply N.bits_0].
    rewrite mask64_ones, ones_bit. lia.
  - exists ws'. split; [exact E|]. split; [eapply wf_intro; eauto|].
    intros i Hi. rewrite B. unfold bit, wbit. rewrite nth_map_const.
    pose proof (nwords_bound n i Hi) as Hb.
    replace (_ <? _)%nat with true by lia.
    rewrite mask64_ones, ones_bit. lia.
Qed.

Lemma flip_all_spec : forall n ws, 1 <= n -> wf n ws ->
  exists ws', flip_all n ws = Ok ws' /\ wf n ws' /\ forall i, i < n -> bit ws' i = negb (bit ws i).
Proof.
  intros n ws Hn Hwf. pose proof (wf_words_ok _ _ Hwf) as O. destruct Hwf as (L & F & P). unfold flip_all.
  assert (Hnth : forall j, nth j (map not64 ws) 0 = if (j <? length ws)%nat then not64 (nth j ws 0) else 0).
  { intro j. destruct (Nat.ltb_spec j (length ws)) as [H|H].
    - rewrite (nth_indep _ 0 (not64 0)) by (now rewrite map_length). now rewrite map_nth.
    - apply nth_overflow. now rewrite map_length. }
  destruct (mask_last_bit_spec n (map not64 ws) Hn) as (ws' & E & L' & O' & B).
  - now rewrite map_length.
  - intros j b Hb. rewrite Hnth. destruct (_ <? _)%nat; [|apply N.bits_0].
    rewrite not64_bit, (O j b Hb). lia.
  - exists ws'. split; [exact E|]. split; [eapply wf_intro; eauto|].
    intros i Hi. rewrite B. unfold bit, wbit. rewrite Hnth.
    pose proof (nwords_bound n i Hi) as Hb.
    replace (_ <? _)%nat with true by lia.
    rewrite not64_bit. replace (i <? n) with true by lia. replace (i mod 64 <? 64) with true by lia.
    cbn [andb]. now rewrite xorb_true_r.
Qed.

(* ---- single positions ------------------------------------------------------------------------ *)
Lemma test_spec : forall n ws p, wf n ws -> p < n -> test ws p = Ok (bit ws p).
Proof.
  intros n ws p (L & F & P) Hp. unfold test.
  assert (Hw : (widx p < length ws)%nat) by (rewrite L; now apply nwords_bound).
  rewrite rd_ok by exact Hw. cbn [bind]. f_equal.
  unfold bit, wbit. fold (widx p). set (w := nth (widx p) ws 0). set (pb := p mod 64).
  assert (Hpb : pb < 64) by (unfold pb; lia).
  assert (E : N.land w (shl64 1 pb) = if N.testbit w pb then shl64 1 pb else 0).
  { apply N.bits_inj. intro b. rewrite N.land_spec, shl64_bit.
    assert (T1 : N.testbit 1 (b - pb) = (b - pb =? 0)) by (apply (b2n_bit true)).
    destruct (N.eq_dec b pb) as [->|Hne].
    - destruct (N.testbit w pb); [|now rewrite andb_false_l, N.bits_0].
      rewrite shl64_bit. reflexivity.
    - replace ((b <? 64) && (pb <=? b) && N.testbit 1 (b - pb)) with false by (rewrite T1; lia).
      rewrite andb_false_r. destruct (N.testbit w pb); [|now rewrite N.bits_0].
      rewrite shl64_bit, T1. lia. }
  rewrite E. destruct (N.testbit w pb) eqn:T; [|reflexivity].
  destruct (N.eqb_spec (shl64 1 pb) 0) as [Z|Z]; [|reflexivity].
  assert (T2 : N.testbit (shl64 1 pb) pb = true).
  { rewrite shl64_bit, N.sub_diag. replace (pb <? 64) with true by lia.
    replace (pb <=? pb) with true by lia. reflexivity. }
  rewrite Z, N.bits_0 in T2. discriminate.
Qed.

Lemma set_pos_spec : forall n ws p v, wf n ws -> p < n ->
  exists ws', set_pos ws p v = Ok ws' /\ wf n ws' /\ forall i, bit ws' i = if i =? p then v else bit ws i.
Proof.
  intros n ws p v Hwf Hp. pose proof (wf_words_ok _ _ Hwf) as O. destruct Hwf as (L & F & P).
  unfold set_pos.
  assert (Hw : (widx p < length ws)%nat) by (rewrite L; now apply nwords_bound).
  rewrite rd_ok by exact Hw. cbn [bind]. rewrite wr_ok by exact Hw.
  eexists. split; [reflexivity|].
  set (pb := p mod 64). assert (Hpb : pb < 64) by (unfold pb; lia).
  set (w' := N.lor _ _).
  assert (Hb : forall b, N.testbit w' b =
      (b <? 64) && (if b =? pb then v else N.testbit (nth (widx p) ws 0) b)).
  { intro b. unfold w'. rewrite N.lor_spec, N.land_spec, not64_bit, !shl64_bit, b2n_bit.
    assert (T1 : N.testbit 1 (b - pb) = (b - pb =? 0)) by (apply (b2n_bit true)). rewrite T1.
    destruct (N.ltb_spec b 64) as [H64|H64].
    - destruct (N.eqb_spec b pb) as [->|Hne].
      + rewrite N.sub_diag. replace (pb <=? pb) with true by lia.
        replace (0 =? 0) with true by reflexivity.
        destruct v, (N.testbit (nth (widx p) ws 0) pb); reflexivity.
      + destruct (N.leb_spec pb b).
        * replace (b - pb =? 0) with false by lia.
          destruct v, (N.testbit (nth (widx p) ws 0) b); reflexivity.
        * destruct v, (N.testbit (nth (widx p) ws 0) b), (b - pb =? 0); reflexivity.
    - rewrite (O _ b H64). destruct v, (pb <=? b), (b - pb =? 0); reflexivity. }
  assert (B : forall i, bit (upd ws (widx p) w') i = if i =? p then v else bit ws i).
  { intro i. unfold bit, wbit. rewrite nth_upd by exact Hw.
    destruct (Nat.eqb_spec (N.to_nat (i / 64)) (widx p)) as [E|E].
    - rewrite Hb. replace (i mod 64 <? 64) with true by lia. cbn [andb].
      replace (i mod 64 =? pb) with (i =? p) by (unfold pb, widx in *; lia). now rewrite E.
    - replace (i =? p) with false by (unfold widx in *; lia). reflexivity. }
  split; [|exact B]. split; [now rewrite upd_length|]. split.
  - apply words_ok_Forall. intros j b H64. rewrite nth_upd by exact Hw.
    destruct (Nat.eqb j (widx p)); [|now apply O]. rewrite Hb. lia.
  - intros i Hi. rewrite B. replace (i =? p) with false by lia. now apply P.
Qed.

Lemma flip_pos_spec : forall n ws p, wf n ws -> p < n ->
  exists ws', flip_pos ws p = Ok ws' /\ wf n ws' /\
    forall i, bit ws' i = if i =? p then negb (bit ws i) else bit ws i.
Proof.
  intros n ws p Hwf Hp. unfold flip_pos. rewrite (test_spec n) by assumption. cbn [bind].
  destruct (set_pos_spec n ws p (negb (bit ws p)) Hwf Hp) as (ws' & E & W & B).
  exists ws'. split; [exact E|]. split; [exact W|]. intro i. rewrite B.
  destruct (N.eqb_spec i p) as [->|]; reflexivity.
Qed.

(* ---- &=, |=, ^= ------------------------------------------------------------------------------ *)
Lemma foldM_ext : forall {S X} (f f' : S -> X -> res S) xs s,
  (forall s x, f s x = f' s x) -> foldM f xs s = foldM f' xs s.
Proof.
  intros S X f f' xs. induction xs as [|x r IH]; intros s H; cbn [foldM]; [reflexivity|].
  rewrite H. destruct (f' s x); cbn [bind]; auto.
Qed.

Lemma binop_spec : forall (f : N -> N -> N) (fb : bool -> bool -> bool) n ws rhs,
  (forall a b k, N.testbit (f a b) k = fb (N.testbit a k) (N.testbit b k)) -> fb false false = false ->
  1 <= n -> wf n ws -> wf n rhs ->
  exists ws', binop f ws rhs = Ok ws' /\ wf n ws' /\ forall i, bit ws' i = fb (bit ws i) (bit rhs i).
Proof.
  intros f fb n ws rhs Hf Hff Hn Hwf Hwr.
  pose proof (wf_words_ok _ _ Hwf) as O. pose proof (wf_words_ok _ _ Hwr) as Or.
  destruct Hwf as (L & F & P). destruct Hwr as (Lr & Fr & Pr). unfold binop.
  rewrite (foldM_ext _ (fun ws i => v <- (a <- rd ws i ;; b <- rd rhs i ;; Ok (f a b)) ;; wr ws i v)).
  2:{ intros s x. destruct (rd s x); cbn [bind]; [|reflexivity]. destruct (rd rhs x); reflexivity. }
  destruct (foldM_inplace (fun ws i => a <- rd ws i ;; b <- rd rhs i ;; Ok (f a b))
             (fun j => f (nth j ws 0) (nth j rhs 0)) (seq 0 (length ws)) ws) as (ws' & E & L' & Hin & Hout).
  - intros i Hi. apply in_seq in Hi. lia.
  - intros pre i post ws1 Es L1 A. apply seq_split_inv in Es. destruct Es as (Ei & Hl & Hp).
    rewrite rd_ok by lia. cbn [bind]. rewrite rd_ok by lia. cbn [bind].
    rewrite A; [reflexivity|]. intro Hc. apply Hp in Hc. lia.
  - exists ws'. split; [exact E|].
    assert (Hnth : forall j, nth j ws' 0 = f (nth j ws 0) (nth j rhs 0)).
    { intro j. destruct (Nat.lt_ge_cases j (length ws)) as [H|H].
      - apply Hin. apply in_seq. lia.
      - rewrite Hout by (rewrite in_seq; lia). rewrite !nth_overflow by lia.
        apply N.bits_inj. intro k. now rewrite Hf, N.bits_0. }
    assert (B : forall i, bit ws' i = fb (bit ws i) (bit rhs i)).
    { intro i. unfold bit, wbit. now rewrite Hnth, Hf. }
    split; [|exact B]. split; [lia|]. split.
    + apply words_ok_Forall. intros j b Hb. rewrite Hnth, Hf, (O j b Hb), (Or j b Hb). exact Hff.
    + intros i Hi. rewrite B, P, Pr by assumption. exact Hff.
Qed.

(* ---- constructors ---------------------------------------------------------------------------- *)
Lemma nth_repeat0 : forall k j, nth j (repeat 0 k) 0 = 0.
Proof. induction k as [|k IH]; intros [|j]; cbn [repeat nth]; auto. Qed.

Lemma ctor_default_spec : forall n, 1 <= n ->
  wf n (ctor_default n) /\ forall i, bit (ctor_default n) i = false.
Proof.
  intros n Hn. unfold ctor_default.
  assert (B : forall i, bit (repeat 0 (nwords n)) i = false).
  { intro i. unfold bit, wbit. rewrite nth_repeat0. apply N.bits_0. }
  split; [|exact B]. split; [apply repeat_length|]. split.
  - apply Forall_forall. intros w Hw. apply repeat_spec in Hw. subst. reflexivity.
  - intros i _. apply B.
Qed.

Lemma ctor_val_spec : forall n v, 1 <= n -> v < 2 ^ 64 ->
  exists ws, ctor_val n v = Ok ws /\ wf n ws /\ forall i, i < n -> bit ws i = N.testbit v i.
Proof.
  intros n v Hn Hv. unfold ctor_val.
  pose proof (nwords_pos n Hn) as Hp.
  assert (Hw : (0 < length (repeat 0%N (nwords n)))%nat) by (rewrite repeat_length; lia).
  rewrite wr_ok by exact Hw. cbn [bind].
  destruct (mask_last_bit_spec n (upd (repeat 0 (nwords n)) 0 v) Hn) as (ws' & E & L' & O' & B).
  - now rewrite upd_length, repeat_length.
  - intros j b Hb. rewrite nth_upd by exact Hw. destruct (Nat.eqb j 0).
    + now apply word_ok_lt.
    + rewrite nth_repeat0. apply N.bits_0.
  - exists ws'. split; [exact E|]. split; [eapply wf_intro; eauto|].
    intros i Hi. rewrite B. replace (i <? n) with true by lia. cbn [andb].
    unfold bit, wbit. rewrite nth_upd by exact Hw.
    destruct (Nat.eqb_spec (N.to_nat (i / 64)) 0%nat) as [E0|E0].
    + f_equal. lia.
    + rewrite nth_repeat0, N.bits_0. symmetry. apply (word_ok_lt v Hv). lia.
Qed.
