# property id -> claim.  Only properties whose check exists and passes on the current tree are listed.
NOT_YET = {}
CHECKS = {
 "C14": dict(
   text="Coq theorems: for every hash function and every operation history with inserts of absent keys the chain-level model of frg::hash_map refines an association list (results, size, iteration a duplicate-free permutation). The model is tied to the code by running the extracted model and the real hash_map on the same generated scripts (exact results and exact iteration order) with std::unordered_map and lifetime registries as independent oracle.",
   note="Trusted: Coq kernel, ExtrOcamlBasic extraction + OCaml driver, harness C++, g++/ASan/UBSan, generator coverage. Modelled rather than verified: chain pointers as lists, placement-new mechanics. Hypotheses: insert only of absent keys; hash any total function.",
   technique="Coq refinement proof (invariant by induction over op list) + extracted-model differential correspondence"),
}
